#!/bin/bash
# tools/cover_all.sh — vacuity diagnosis over every claimed property (builder's tool, not a registered check).
# For every program point an obligation is stated at, asks whether it is reachable under the assumptions in
# force there; prints the unreachable points that are not in the reviewed list cover_expected.txt.
# Exit 0 when every unreachable point is a reviewed one, 3 otherwise. ~25 minutes.
cd /verif
. ./env.sh
[ -x bin/govc ] || ./setup.sh >/dev/null
out=out/cover_all; rm -rf $out; mkdir -p $out
for p in $(jq -r '.checks[].property_id' MANIFEST.json); do
  ./bin/govc -prop $p -cover > $out/$p.txt 2>&1
done
grep -h "^UNREACHABLE" $out/*.txt | sed -E 's/ \((z3|z3-new|cvc5)[^)]*\):/:/; s/ \(\+[0-9]+ more at the same point\)//; s/:[0-9]+$//' | sort -u > $out/unreachable.txt
grep -h "^cover:" $out/*.txt | awk '{p+=$2; u+=$5} END {print "cover_all: " p " program points, " u " unreachable (with repeats across properties)"}'
new=$(comm -23 $out/unreachable.txt <(grep -v '^#' cover_expected.txt | sed -E 's/:[0-9]+$//' | sort -u))
if [ -n "$new" ]; then echo "NOT REVIEWED:"; echo "$new"; exit 3; fi
echo "every unreachable point is in cover_expected.txt"
