#!/bin/bash
# tools/confirm_seed.sh <Cxx> [outdir]  — confirms a seeded change produced by a sub-agent in a scratch
# worktree of /repo HEAD: demo passes without the change, change compiles, tests of the touched packages
# pass with it, demo fails with it. Then runs ./check against it in /repo and records everything under
# /verif/seeded/<Cxx>[suffix]/.
set -u
id="$1"; out="${2:-/tmp/out_$id}"; name="${3:-$id}"
. /verif/env.sh
mkdir -p /var/tmp/gt; export TMPDIR=/var/tmp/gt
wt=/tmp/cs_$name
dst=/verif/seeded/$name
mkdir -p "$dst"
git -C /repo worktree remove --force $wt 2>/dev/null
git -C /repo worktree add -q --detach $wt HEAD || exit 2
cd $wt
patch="$out/patch.diff"
demo=$(ls $out/zz_demo_*_test.go | head -1)
pkgs=$(grep '^+++ b/' "$patch" | sed 's|+++ b/||' | xargs -n1 dirname | sort -u | sed 's|^|./|')
# where does the demo go? same dir as named in notes or first touched package; use package clause
demopkg=$(grep -m1 '^package ' "$demo" | awk '{print $2}' | sed 's/_test$//')
demodir=""
for d in $pkgs $(grep -rl "^package $demopkg\$" --include=*.go internal | xargs -n1 dirname | sort -u | sed 's|^|./|'); do
  if grep -q "^package $demopkg" $d/*.go 2>/dev/null; then demodir=$d; break; fi
done
echo "touched: $pkgs ; demo package dir: $demodir"
cp "$demo" $demodir/
log=$dst/confirm.log; : > $log
run() { echo "\$ $*" >> $log; "$@" >> $log 2>&1; local rc=$?; echo "exit $rc" >> $log; return $rc; }
run go test -count=1 -run "TestDemo" $demodir; base_demo=$?
if ! git apply --check "$patch" 2>>$log; then echo "PATCH DOES NOT APPLY at HEAD" | tee -a $log; applies=no; else applies=yes; git apply "$patch"; fi
run go build ./... ; build=$?
run go vet $pkgs; vet=$?
run go test -count=1 -skip TestDemo $pkgs; tests=$?
run go test -count=1 -run "TestDemo" $demodir; mut_demo=$?
cd /
git -C /repo worktree remove --force $wt
echo "applies=$applies base_demo_exit=$base_demo build=$build vet=$vet pkg_tests=$tests mutated_demo_exit=$mut_demo" | tee -a $log
cp "$patch" $dst/patch.diff; cp "$demo" $dst/; [ -f $out/notes.md ] && cp $out/notes.md $dst/notes.md
# run the check in /repo
if [ "$applies" = yes ]; then
  git -C /repo apply "$patch" && (cd /verif && VERIF_EVIDENCE_DIR=/verif/out/seed_evidence ./check $id > $dst/check_output.txt 2>&1; echo "check exit $?" >> $dst/check_output.txt); git -C /repo checkout -- .
  tail -4 $dst/check_output.txt
fi
