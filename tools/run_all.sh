#!/bin/bash
# runs every claimed quick check on the current tree (in parallel), prints one line per property
cd /verif
ids=$(jq -r '.checks[].property_id' MANIFEST.json)
mkdir -p out/runall
for id in $ids; do ( ./check $id ${1:-} > out/runall/$id.log 2>&1; echo "$id exit=$? $(tail -1 out/runall/$id.log | grep -v VIOLATION)$(grep -c VIOLATION out/runall/$id.log | sed 's/^/ violations=/')" ) & 
  while [ $(jobs -r | wc -l) -ge 3 ]; do sleep 0.5; done
done
wait
