#!/bin/bash
# tools/mkseedwt.sh <Cxx> [suffix] — scratch worktree for a seed-writing sub-agent: /repo HEAD (all fixes in)
# with the contract files removed, so nothing of the verification is visible. Prints the filled prompt.
set -e
id="$1"; sfx="${2:-}"
wt=/tmp/wt_${id}${sfx}; out=/tmp/out_${id}${sfx}
git -C /repo worktree remove --force $wt 2>/dev/null || true
rm -rf $out; mkdir -p $out
git -C /repo worktree add -q --detach $wt HEAD
cd $wt
git rm -q internal/*/zz_verif_*.go
git -c user.name=builder -c user.email=b@x commit -qm "scratch base: contracts removed" 
python3 - "$id" "$wt" "$out" <<'P'
import json,sys
id,wt,out=sys.argv[1:4]
p=[json.loads(l) for l in open('/verif/properties.jsonl') if json.loads(l)['id']==id][0]
t=open('/verif/tools/seed_prompt.tmpl').read()
print(t.format(wt=wt,out=out,id=id,title=p['title'],statement=p['statement'],qtext=p['quantifier']['text'],files=", ".join(p['anchors']['files'])))
P
