#!/bin/bash
# tools/selftest.sh [Cxx ...] — to be run after EVERY engine or contract change, before committing:
#  1. fresh build through MANIFEST.setup_cmd, then every claimed quick check on the clean tree with its
#     evidence file removed first: each must exit 0, print no VIOLATION line and rewrite its evidence;
#  2. every recorded must-fail change (seeded/<Cxx>/patch.diff) of a claimed property is applied to
#     /repo, the property's check must exit 1 with a VIOLATION line, and the change is undone.
# Evidence written while a change is applied goes to out/seed_evidence, never to evidence/.
# Exit 0 only if both halves are as expected.
set -u
cd /verif
[ -z "$(git -C /repo status --porcelain)" ] || { echo "/repo not clean"; exit 2; }
ids="$*"; [ -n "$ids" ] || ids=$(jq -r '.checks[].property_id' MANIFEST.json)
rm -f bin/govc
sh -c "$(jq -r .setup_cmd MANIFEST.json)" || { echo "SELFTEST FAIL: setup"; exit 1; }
bad=0
mkdir -p out/selftest
for id in $ids; do
  [ "${SELFTEST_ONLY:-}" = seeds ] && break   # second half only (after a run whose first half passed)
  cmd=$(jq -r --arg id "$id" '.checks[]|select(.property_id==$id)|.quick_cmd' MANIFEST.json)
  rm -f evidence/$id.json
  sh -c "$cmd" > out/selftest/$id.clean.log 2>&1; rc=$?
  v=$(grep -c VIOLATION out/selftest/$id.clean.log)
  if [ $rc -ne 0 ] || [ "$v" -ne 0 ] || [ ! -s evidence/$id.json ]; then
    echo "SELFTEST FAIL: $id clean tree rc=$rc violations=$v evidence=$([ -s evidence/$id.json ] && echo ok || echo missing)"; bad=1
  else
    echo "ok   $id clean ($(tail -1 out/selftest/$id.clean.log | cut -c1-90))"
  fi
done
for id in $ids; do
  [ -f /verif/seeded/$id/patch.diff ] || echo "note $id has no recorded must-fail change"
  for d in /verif/seeded/$id /verif/seeded/${id}[a-z]; do
    [ -f $d/patch.diff ] || continue
    sid=$(basename $d)
    git -C /repo apply $d/patch.diff || { echo "SELFTEST FAIL: $sid patch does not apply"; bad=1; continue; }
    VERIF_EVIDENCE_DIR=/verif/out/seed_evidence ./check $id > out/selftest/$sid.seed.log 2>&1; rc=$?
    git -C /repo checkout -- .
    git -C /repo clean -fdq -- internal cmd 2>/dev/null
    v=$(grep -c '^VIOLATION' out/selftest/$sid.seed.log)
    { grep -v '^WARNING' out/selftest/$sid.seed.log; echo "check exit $rc"; } > $d/check_output.txt   # what the catch table in DESIGN.md is generated from
    if [ $rc -ne 1 ] || [ "$v" -eq 0 ]; then
      echo "SELFTEST FAIL: $sid must-fail change not reported (rc=$rc violations=$v)"; bad=1
    else
      echo "ok   $sid must-fail change reported ($v obligations)"
    fi
  done
done
[ -z "$(git -C /repo status --porcelain)" ] || { echo "SELFTEST FAIL: /repo left dirty"; bad=1; }
exit $bad
