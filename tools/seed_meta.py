#!/usr/bin/env python3
"""tools/seed_meta.py <Cxx>... — (re)writes seeded/<Cxx>/meta.json from the files confirm_seed.sh left
there (notes.md heading, confirm.log summary, check_output.txt tail). Existing 'change' and
'needs_to_manifest' texts are kept."""
import json, os, re, sys

root = os.path.join(os.path.dirname(os.path.abspath(__file__)), "..", "seeded")
for sid in sys.argv[1:]:
    d = os.path.join(root, sid)
    meta_p = os.path.join(d, "meta.json")
    meta = {}
    if os.path.exists(meta_p):
        meta = json.load(open(meta_p))
    prop = re.match(r"C\d\d", sid).group(0)
    notes = open(os.path.join(d, "notes.md")).read() if os.path.exists(os.path.join(d, "notes.md")) else ""
    if "change" not in meta:
        m = re.search(r"^#\s*(.+)$", notes, re.M)
        head = m.group(1).strip() if m else ""
        head = re.sub(r"^C\d\d\s+seeded change:?\s*", "", head).strip(' "')
        if not head or head.lower() in ("notes", "c%s seeded change" % prop[1:]):
            # first paragraph after the first '## ' heading
            m = re.search(r"^##[^\n]*\n+(.+?)(?:\n\n|\Z)", notes, re.M | re.S)
            head = " ".join(m.group(1).split())[:300] if m else ""
        meta["change"] = head
    meta["property"] = prop
    meta["produced_by"] = "independent sub-agent given only the property text and a pristine scratch worktree (base commit 1249922)"
    summ = ""
    log_p = os.path.join(d, "confirm.log")
    if os.path.exists(log_p):
        for line in open(log_p):
            if line.startswith("applies="):
                summ = line.strip()
    meta["confirmed"] = ("tools/confirm_seed.sh in a scratch worktree of /repo HEAD: demo passes without the change; "
                         "with the change: go build ./..., go vet, go test -skip TestDemo of the touched packages and the demo are run")
    meta["confirm_summary"] = summ
    co = os.path.join(d, "check_output.txt")
    if os.path.exists(co):
        lines = [l.rstrip() for l in open(co) if l.strip()]
        viol = [l for l in lines if l.startswith("VIOLATION")]
        meta["check_result"] = (viol[:6] + lines[-1:]) if viol else lines[-2:]
        meta["detected"] = bool(viol)
    json.dump(meta, open(meta_p, "w"), indent=1)
    print(sid, "detected" if meta.get("detected") else "not detected / no check", "|", meta["change"][:90])
