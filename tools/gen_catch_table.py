#!/usr/bin/env python3
"""Rewrites the block between <!-- CATCH-TABLE --> markers in DESIGN.md from seeded/*/meta.json and
seeded/*/check_output.txt: one row per seeded change (what it is, what it needs, which obligations report it)."""
import json, os, re, glob
root=os.path.dirname(os.path.dirname(os.path.abspath(__file__)))
rows=[]
for d in sorted(glob.glob(os.path.join(root,'seeded','C*'))):
    sid=os.path.basename(d)
    mp=os.path.join(d,'meta.json')
    if not os.path.exists(mp): continue
    m=json.load(open(mp))
    out=os.path.join(d,'check_output.txt')
    obs=[]; rc='?'
    if os.path.exists(out):
        for l in open(out):
            mm=re.match(r'VIOLATION property=(C\d\d) replay=.*/([^/]+)\.replay\.json',l)
            if mm: obs.append(mm.group(2))
            mm=re.match(r'check exit (\d+)',l)
            if mm: rc=mm.group(1)
    ch=' '.join(str(m.get('change','')).split())[:170]
    need=' '.join(str(m.get('needs_to_manifest') or '').split())[:150]
    caught='yes: '+', '.join(obs[:3])+(' …' if len(obs)>3 else '') if rc=='1' and obs else ('NO (exit %s)'%rc)
    rows.append(f"| {sid} | {ch} | {need} | {caught} |")
tbl="| seed | change | needs | reported by (obligation files under out/) |\n|---|---|---|---|\n"+"\n".join(rows)
p=os.path.join(root,'DESIGN.md'); s=open(p).read()
a,b='<!-- CATCH-TABLE -->','<!-- /CATCH-TABLE -->'
if a in s:
    s=s[:s.index(a)+len(a)]+"\n"+tbl+"\n"+s[s.index(b):]
else:
    s+="\n### 7.5 Which checks catch which seeded changes\n\nEvery row is a change written by an independent sub-agent from the property text alone (or, where a repair made the sub-agent's change harmless, the reverse of the repair), confirmed to compile and pass the package tests, with a demonstration that fails only with the change. `tools/selftest.sh` re-applies every one to `/repo`, expects exit 1 with a VIOLATION line from the property's check, and undoes it.\n\n"+a+"\n"+tbl+"\n"+b+"\n"
open(p,'w').write(s)
print(len(rows),"rows")
