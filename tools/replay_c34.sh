#!/bin/bash
# tools/replay_c34.sh [repo-root]  — crash-point replay for C34 (identity creation): runs the identity bootstrap
# under strace, kills it at the N-th renameat (N = 1, 2), then starts it twice more and checks that the start
# succeeds, the keypair is consistent and the private key that was already stored is not replaced.
# Prints REPLAY-CONFIRMED lines for misbehaviour; exit 1 if any.
repo="${1:-/repo}"
. /verif/env.sh
export TMPDIR=/var/tmp/gt; mkdir -p $TMPDIR
work=$(mktemp -d /var/tmp/c34.XXXXXX)
echo "{\"Replace\": {\"$repo/internal/identity/zz_verif_c34_test.go\": \"/verif/replay/C34_crash_test.go.tmpl\"}}" > $work/ov.json
(cd $repo && go test -overlay $work/ov.json -vet=off -c -o $work/id.test ./internal/identity) || { echo "build failed"; exit 2; }
bad=0
for n in 1 2; do
  d=$work/data$n; mkdir -p $d
  C34_DIR=$d strace -f -qq -o /dev/null -e trace=renameat,renameat2,rename -e inject=renameat,renameat2,rename:signal=KILL:when=$n $work/id.test -test.run TestZZVerifReplayC34Step >/dev/null 2>&1
  stored=$(cat $d/agent_key 2>/dev/null | head -c 8)
  r2=$(C34_DIR=$d $work/id.test -test.run TestZZVerifReplayC34Step | grep C34STEP)
  r3=$(C34_DIR=$d $work/id.test -test.run TestZZVerifReplayC34Step | grep C34STEP)
  echo "kill at rename #$n: private key on disk after the crash: ${stored:-<none>}"; echo "  restart 1: $r2"; echo "  restart 2: $r3"
  case "$r2" in *error=*) echo "REPLAY-CONFIRMED C34: the start after a crash at rename #$n fails"; bad=1;; esac
  if [ -n "$stored" ]; then
    case "$r2" in *"privfile=$stored"*) ;; *) echo "REPLAY-CONFIRMED C34: a private key stored before the crash (at rename #$n) was replaced by a new identity on the next start"; bad=1;; esac
  fi
  p2=$(echo "$r2" | sed -n 's/.*pub=\([0-9a-f]*\).*/\1/p'); p3=$(echo "$r3" | sed -n 's/.*pub=\([0-9a-f]*\).*/\1/p')
  [ -n "$p2" ] && [ "$p2" = "$p3" ] || { echo "REPLAY-CONFIRMED C34: identity differs between two consecutive starts after the crash"; bad=1; }
  case "$r2$r3" in *consistent=false*) echo "REPLAY-CONFIRMED C34: public key does not match private key"; bad=1;; esac
done
rm -rf $work
exit $bad
