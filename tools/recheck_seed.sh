#!/bin/bash
# tools/recheck_seed.sh <seed-id> [property]  — applies seeded/<seed-id>/patch.diff to /repo, runs the
# property's quick check (default: the seed's own property), stores the output next to the seed and
# undoes the change. /repo must be clean.
set -u
sid="$1"; prop="${2:-${1:0:3}}"
d=/verif/seeded/$sid
[ -z "$(git -C /repo status --porcelain)" ] || { echo "/repo not clean"; exit 2; }
out=$d/check_output.txt; [ "$prop" != "${sid:0:3}" ] && out=$d/check_output_$prop.txt
git -C /repo apply $d/patch.diff || exit 2
(cd /verif && VERIF_EVIDENCE_DIR=/verif/out/seed_evidence ./check $prop > $out 2>&1; echo "check exit $?" >> $out)
git -C /repo checkout -- .
grep -c '^VIOLATION' $out; tail -2 $out
