#!/bin/bash
# tools/selftest_par.sh [workers] — the must-fail half of tools/selftest.sh, run in parallel: every recorded
# seeded change is applied to its worker's own scratch worktree of /repo HEAD (never to /repo), the property's
# check is run by the same binary against that worktree (govc -repo <wt> -verif <private copy of /verif>), must
# exit 1 with a VIOLATION line, and the change is undone. The clean-tree half (the registered ./check commands,
# run in /repo) is tools/run_all.sh. Writes seeded/<id>/check_output.txt like selftest.sh does.
set -u
cd /verif
. ./env.sh
W=${1:-4}
[ -z "$(git -C /repo status --porcelain)" ] || { echo "/repo not clean"; exit 2; }
[ -x bin/govc ] || ./setup.sh >/dev/null
ids=$(jq -r '.checks[].property_id' MANIFEST.json)
list=/var/tmp/st_list.txt; : > $list
for id in $ids; do for d in seeded/$id seeded/${id}[a-z]; do [ -f $d/patch.diff ] && echo "$id $(basename $d)" >> $list; done; done
mkdir -p out/selftest
worker() {
  k=$1
  wt=/tmp/st_w$k; vc=/var/tmp/st_v$k
  git -C /repo worktree remove --force $wt 2>/dev/null
  git -C /repo worktree add -q --detach $wt HEAD || exit 2
  rm -rf $vc; mkdir -p $vc; rsync -a --exclude out --exclude .git --exclude evidence /verif/ $vc/
  mkdir -p $vc/evidence
  n=0
  while read id sid; do
    n=$((n+1)); [ $((n % W)) -eq $((k % W)) ] || continue
    if ! git -C $wt apply /verif/seeded/$sid/patch.diff 2>/dev/null; then echo "SELFTEST FAIL: $sid patch does not apply"; continue; fi
    tier=quick
    (cd $vc && VERIF_EVIDENCE_DIR=$vc/out/seed_evidence ./bin/govc -prop $id -tier quick -repo $wt -verif $vc) > out/selftest/$sid.seed.log 2>&1; rc=$?
    git -C $wt checkout -q -- . ; git -C $wt clean -fdq -- internal cmd 2>/dev/null
    v=$(grep -c '^VIOLATION' out/selftest/$sid.seed.log)
    { grep -v '^WARNING' out/selftest/$sid.seed.log | sed "s|$vc|/verif|g"; echo "check exit $rc"; } > seeded/$sid/check_output.txt
    if [ $rc -ne 1 ] || [ "$v" -eq 0 ]; then echo "SELFTEST FAIL: $sid not reported (rc=$rc violations=$v)"; else echo "ok   $sid must-fail change reported ($v obligations)"; fi
  done < $list
  git -C /repo worktree remove --force $wt; rm -rf $vc
}
for k in $(seq 1 $W); do worker $k > out/selftest/worker$k.log 2>&1 & done
wait
cat out/selftest/worker*.log | sort
bad=$(cat out/selftest/worker*.log | grep -c "SELFTEST FAIL")
echo "selftest_par: $(wc -l < $list) seeded changes, $bad not reported"
[ "$bad" -eq 0 ]
