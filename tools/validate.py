#!/usr/bin/env python3
"""Validates MANIFEST.json and every evidence file against the given schemas (run with python3-vt)."""
import json, glob, sys
import jsonschema
ok = True
def check(path, schema):
    global ok
    try:
        jsonschema.validate(json.load(open(path)), json.load(open(schema)))
    except Exception as e:
        ok = False
        print("INVALID", path, str(e).splitlines()[0])
check('/verif/MANIFEST.json', '/root/.vp/MANIFEST.schema.json')
m = json.load(open('/verif/MANIFEST.json'))
ids = [c['property_id'] if 'property_id' in c else c.get('id') for c in m.get('checks', [])]
for f in sorted(glob.glob('/verif/evidence/*.json')):
    check(f, '/root/.vp/EVIDENCE.schema.json')
have = {f.split('/')[-1][:-5] for f in glob.glob('/verif/evidence/*.json')}
for i in ids:
    if i not in have:
        ok = False
        print("MISSING evidence for", i)
for h in sorted(have - set(ids)):
    print("note: evidence without claim:", h)
print("ok" if ok else "FAILED")
sys.exit(0 if ok else 1)
