#!/bin/bash
# tools/thorough_extra.sh <Cxx> — dynamic complements of the thorough tier, run after the proofs:
#  * C34: the identity bootstrap is killed at every rename (strace fault injection) and restarted twice;
#    misbehaviour prints a VIOLATION line and exits 1;
#  * every OPEN known finding of the property that has a replay template is re-run against /repo with
#    go test -overlay: the finding must still reproduce (REPLAY-CONFIRMED in the output); a finding that no
#    longer reproduces is reported as a NOTE (the record should then be turned into a fixed: entry), never
#    as a violation.
prop="$1"; cd /verif; . ./env.sh
export TMPDIR=/var/tmp/gt; mkdir -p $TMPDIR out/$prop
rc=0
if [ "$prop" = C34 ]; then
  log=/verif/out/C34/crash_replay.log
  if tools/replay_c34.sh /repo > $log 2>&1; then
    echo "C34 thorough: crash replay at 2 rename points x 2 restarts: consistent identity, nothing replaced ($(grep -c 'restart' $log) restarts observed)"
  else
    echo "VIOLATION property=C34 replay=$log"; rc=1
  fi
fi
python3 - "$prop" <<'P'
import json,sys,subprocess,os,re
prop=sys.argv[1]
kf=[k for k in json.load(open('/verif/known_findings.json')) if k['property']==prop and k.get('status')=='open' and k.get('replay')]
tm=json.load(open('/verif/replay/templates.json'))
done=set()
for k in kf:
    tmpl=os.path.join('/verif',k['replay'])
    if tmpl in done or not os.path.exists(tmpl): continue
    done.add(tmpl)
    pkg=None
    for t in tm:
        if t['template']==os.path.basename(tmpl): pkg=t['pkg']
    if not pkg: continue
    src=open(tmpl).read()
    if '{{' in src: continue   # model-parameterised templates are replayed by govc itself
    ov='/verif/out/%s/kf_overlay.json'%prop
    json.dump({"Replace":{os.path.join('/repo',pkg.lstrip('./'),'zz_verif_kf_test.go'):tmpl}},open(ov,'w'))
    r=subprocess.run(['go','test','-overlay',ov,'-vet=off','-count=1','-timeout','120s','-run','TestZZVerifReplay',pkg],cwd='/repo',capture_output=True,text=True)
    n=len(re.findall('REPLAY-CONFIRMED',r.stdout+r.stderr))
    if n: print(f"{prop} thorough: known finding replay {os.path.basename(tmpl)} re-confirmed on the real code ({n} confirmations)")
    else: print(f"NOTE: {prop} known finding replay {os.path.basename(tmpl)} no longer reproduces (go test exit {r.returncode}); the record should become a fixed: entry")
P
exit $rc
