#!/bin/bash
# tools/mkhelper.sh <name> — private workspace for a contract-writing helper: a git worktree of /repo HEAD
# at /tmp/<name> and a copy of /verif (without out/, evidence/, seeded/) at /tmp/<name>v with ./hcheck.
set -e
n="$1"
git -C /repo worktree add -q /tmp/$n HEAD
mkdir -p /tmp/${n}v
rsync -a --exclude out --exclude .git --exclude evidence --exclude seeded /verif/ /tmp/${n}v/
mkdir -p /tmp/${n}v/out /tmp/${n}v/evidence
cat > /tmp/${n}v/hcheck <<EOF
#!/bin/sh
# usage: ./hcheck Cxx [-func NAME] [-v] [-timeout N]
cd /tmp/${n}v; . ./env.sh
p="\$1"; shift
exec ./bin/govc -prop "\$p" -repo /tmp/$n -verif /tmp/${n}v "\$@"
EOF
chmod +x /tmp/${n}v/hcheck
echo "/tmp/$n /tmp/${n}v"
