#!/usr/bin/env python3
"""Regenerates /verif/MANIFEST.json from tools/claims.json (one entry per claimed
property) — properties without an entry are listed under not_applicable."""
import json, os, subprocess, sys
root = os.path.dirname(os.path.dirname(os.path.abspath(__file__)))
props = [json.loads(l) for l in open(os.path.join(root, 'properties.jsonl'))]
claims = json.load(open(os.path.join(root, 'tools', 'claims.json')))
na_reasons = json.load(open(os.path.join(root, 'tools', 'not_applicable.json')))
hooks = subprocess.run(['git', '-C', '/repo', 'log', '--format=%H %s', '1249922..HEAD'], capture_output=True, text=True).stdout.strip().split('\n')
def _only_hook_files(h):
    fs = subprocess.run(['git', '-C', '/repo', 'show', '--name-only', '--format=', h], capture_output=True, text=True).stdout.split()
    return bool(fs) and all('/zz_verif_' in f for f in fs)
hook_commits = [l.split()[0] for l in hooks if l and _only_hook_files(l.split()[0])]
checks = []
for p in props:
    c = claims.get(p['id'])
    if not c:
        continue
    checks.append({
        "property_id": p['id'],
        "quick_cmd": f"./check {p['id']}",
        "thorough_cmd": f"./check {p['id']} --thorough",
        "evidence_file": f"/verif/evidence/{p['id']}.json",
        "replay_cmd_template": "cat {path}",
        "engine": "govc",
        "level_claimed": {"category": "proof", "text": c['level'], "design_ref": c.get('design', '§3 ' + p['id'])},
        "level_note": c['note'],
        "technique": c.get('technique', "contract-based deductive verification: pre/postconditions and invariants on the real Go functions, VCs generated from go/ssa, discharged by z3/cvc5"),
    })
na = []
for p in props:
    if p['id'] in claims:
        continue
    na.append({"property_id": p['id'], "reason": na_reasons.get(p['id'], "check not built yet (engine under construction); see DESIGN.md §3 for the planned contracts")})
m = {
    "version": 1,
    "setup_cmd": "./setup.sh",
    "hooks": {
        "guard": "verif",
        "enable": "go build -tags verif: comment-only contract files internal/<pkg>/zz_verif_contracts.go (no executable hook code)",
        "baseline_off_cmd": "cd /repo && go test -vet=off -count=1 -timeout 25m ./...",
        "source_commits": hook_commits,
        "add_only": True,
    },
    "engines": [{"name": "govc", "path": "/verif/cmd/govc", "serves_properties": sorted(claims.keys()),
                 "kind_free_text": "contract-based deductive verifier for Go written for this task: contracts as //@ comments on the real functions, weakest-precondition style VC generation over go/ssa of /repo's working tree, obligations discharged by a portfolio of z3 4.8.12, z3 5.1.0 and cvc5 1.0; counterexamples replayed on the real code through go test -overlay"}],
    "checks": checks,
    "not_applicable": na,
    "notes": "Known findings (genuine defects recorded, not repaired) are in /verif/known_findings.json; fixes are 'fix:' commits in /repo. See DESIGN.md.",
}
json.dump(m, open(os.path.join(root, 'MANIFEST.json'), 'w'), indent=1)
print(f"{len(checks)} checks, {len(na)} not applicable, hooks: {len(hook_commits)}")
