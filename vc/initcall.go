package vc

import (
	"fmt"
	"go/constant"
	"strconv"
	"strings"

	"golang.org/x/tools/go/ssa"
)

// InitCall: "package-level variable V is initialised, once, as callee(<string literal>)".
// Pins literals whose meaning an assumed contract depends on (e.g. a regular expression).
type InitCall struct {
	Pkg, Var, Callee, Want string
	Props                  []string
	Line                   int
}

func parseInitCall(rest string) (*InitCall, error) {
	// <var> = <callee>(<quoted>)
	i := strings.Index(rest, "=")
	j := strings.Index(rest, "(")
	if i < 0 || j < i || !strings.HasSuffix(rest, ")") {
		return nil, fmt.Errorf("initcall <var> = <callee>(<quoted string>)")
	}
	want, err := strconv.Unquote(strings.TrimSpace(rest[j+1 : len(rest)-1]))
	if err != nil {
		return nil, fmt.Errorf("initcall literal: %v", err)
	}
	return &InitCall{Var: strings.TrimSpace(rest[:i]), Callee: strings.TrimSpace(rest[i+1 : j]), Want: want}, nil
}

func (p *Prog) InitCallObligations(prop string) []*Obligation {
	var out []*Obligation
	for _, ic := range p.CS.InitCalls {
		if !hasStr(ic.Props, prop) {
			continue
		}
		o := &Obligation{ID: shortPkgPath(ic.Pkg) + ":literal:" + ic.Var, Props: ic.Props, Kind: "census", Pkg: ic.Pkg, Static: true, Solver: "init scan"}
		got, n, found := "", 0, false
		sp := p.SSAPkg[ic.Pkg]
		if sp != nil {
			for key, f := range p.Funcs {
				if !strings.HasPrefix(key, ic.Pkg+"::") || f.Blocks == nil || f.Name() == "init" {
					continue
				}
				for _, b := range f.Blocks {
					for _, in := range b.Instrs {
						st, ok := in.(*ssa.Store)
						if !ok {
							continue
						}
						g, ok := st.Addr.(*ssa.Global)
						if !ok || g.Name() != ic.Var {
							continue
						}
						n++
					}
				}
			}
			if initf := sp.Func("init"); initf != nil {
				for _, b := range initf.Blocks {
					for _, in := range b.Instrs {
						st, ok := in.(*ssa.Store)
						if !ok {
							continue
						}
						g, ok := st.Addr.(*ssa.Global)
						if !ok || g.Name() != ic.Var {
							continue
						}
						n++
						if call, ok := st.Val.(*ssa.Call); ok {
							if cf, ok := call.Call.Value.(*ssa.Function); ok && calleeMatches(QualName(cf), ic.Callee) && len(call.Call.Args) == 1 {
								if c, ok := call.Call.Args[0].(*ssa.Const); ok && c.Value != nil && c.Value.Kind() == constant.String {
									got, found = constant.StringVal(c.Value), true
								}
							}
						}
					}
				}
			}
		}
		o.Desc = fmt.Sprintf("%s is initialised once as %s(%q); found %q (stores: %d)", ic.Var, ic.Callee, ic.Want, got, n)
		if found && got == ic.Want && n == 1 {
			o.Status = "proved"
		} else {
			o.Status = "refuted"
			o.Output = o.Desc
		}
		out = append(out, o)
	}
	return out
}
