package vc

import (
	"fmt"
	"go/types"
	"sort"
	"strings"

	"golang.org/x/tools/go/ssa"
)

// FuncResult is the outcome of generating VCs for one function.
type FuncResult struct {
	Pkg, Func   string
	Contract    *Contract
	Obls        []*Obligation
	Dropped     map[string]int
	Trusted     []string
	Assumptions []string
	Errors      []string
	Script      *Script
	Lines       int
}

// VerifyFunc generates the obligations of one function under contract.
func (p *Prog) VerifyFunc(c *Contract) (res *FuncResult) {
	key := c.Pkg + "::" + c.Func
	fn := p.Funcs[key]
	res = &FuncResult{Pkg: c.Pkg, Func: c.Func, Contract: c}
	if fn == nil {
		res.Errors = append(res.Errors, fmt.Sprintf("binding error: function %s not found in %s", c.Func, c.Pkg))
		return
	}
	if fn.Blocks == nil {
		res.Errors = append(res.Errors, fmt.Sprintf("binding error: function %s has no body", c.Func))
		return
	}
	vc := NewVC(p, fn, c)
	vc.guards = p.guardMap()
	for mu, fs := range vc.guards {
		for _, f := range fs {
			vc.guardOf[f] = mu
			vc.registerFieldHeap(f)
		}
		vc.registerFieldHeap(mu)
	}
	res.Script = vc.S
	defer func() {
		if r := recover(); r != nil {
			if se, ok := r.(specErr); ok {
				res.Errors = append(res.Errors, "spec error: "+string(se))
				return
			}
			res.Errors = append(res.Errors, fmt.Sprintf("internal error while generating VCs: %v", r))
		}
	}()
	fr := vc.newFrame(fn, c, 0)
	// parameters
	al := vc.root.Get("$alloc")
	for _, prm := range fn.Params {
		v := vc.paramVal(prm.Name(), prm.Type())
		fr.vals[prm] = v
		fr.params[prm.Name()] = v
		vc.assumeAllocated(v, prm.Type(), al)
	}
	for _, fv := range fn.FreeVars {
		v := vc.paramVal("fv."+fv.Name(), fv.Type())
		fr.vals[fv] = v
		vc.assumeAllocated(v, fv.Type(), al)
	}
	// requires
	env := &SpecEnv{fr: fr, heap: vc.root, old: vc.root, block: fn.Blocks[0], idx: 0, bound: map[string]*Val{}, entryParams: true}
	for _, rq := range c.Requires {
		vc.S.Assert(env.evalBool(rq.E))
		// requires held(x.mu): the caller holds the mutex
		collectHeld(rq.E, env, fr.heldIn)
	}
	// ghost assignments performed on entry: the function starts with the ghost variable holding the value
	for _, gi := range c.GhostInits {
		gv, ok := vc.P.CS.GhostVars[gi.Name]
		if !ok {
			res.Errors = append(res.Errors, "ghostinit: "+gi.Name+" is not a ghost variable")
			continue
		}
		vc.S.Assert(eq(vc.root.Get(vc.ghostVarHeap(gv)), vc.term(env.eval(gi.Cl.E))))
	}
	fr.run("true", vc.root)
	// ghost assignments performed at return
	for ri := range fr.rets {
		r := &fr.rets[ri]
		for _, gs := range c.GhostSets {
			gv, ok := p.CS.GhostVars[gs.Name]
			if !ok {
				res.Errors = append(res.Errors, "ghostset: unknown ghost var "+gs.Name)
				continue
			}
			renv := &SpecEnv{fr: fr, heap: r.heap, old: vc.root, block: r.block, idx: 1 << 30, bound: map[string]*Val{}, names: map[string]*Val{}, entryParams: true}
			var rv *Val
			switch len(r.vals) {
			case 0:
				rv = &Val{T: "0"}
			case 1:
				rv = r.vals[0]
			default:
				rv = &Val{Tup: r.vals, Typ: fn.Signature.Results()}
			}
			renv.bindResults(fn, nil, rv)
			nv := vc.term(renv.eval(gs.Cl.E))
			nh := r.heap.Derive()
			nh.Set(vc.ghostVarHeap(gv), nv)
			r.heap = nh
		}
	}
	// postconditions
	for k, en := range c.Ensures {
		var goals []Goal
		mark := 0
		for _, r := range fr.rets {
			renv := &SpecEnv{fr: fr, heap: r.heap, old: vc.root, block: nil, idx: 0, bound: map[string]*Val{}, names: map[string]*Val{}, entryParams: true}
			renv.block = r.block
			fr.ghosts = fr.ghostOut[r.block] // ghost lets as bound on the paths reaching this return
			renv.idx = 1 << 30
			var rv *Val
			switch len(r.vals) {
			case 0:
				rv = &Val{T: "0"}
			case 1:
				rv = r.vals[0]
			default:
				rv = &Val{Tup: r.vals, Typ: fn.Signature.Results()}
			}
			renv.bindResults(fn, nil, rv)
			goals = append(goals, Goal{r.reach, renv.evalBool(en.E), vc.retWhere(&r)})
		}
		mark = vc.S.Mark()
		if len(goals) == 0 {
			continue
		}
		vc.addObl(&Obligation{Kind: "post", Anchor: fmt.Sprintf("ens%d", k), Props: c.ClauseProps(en), Desc: en.Src, File: en.File, Line: en.Line, Goals: goals, Mark: mark})
	}
	// frame obligations: when modifies is declared, everything else allocated before the call is unchanged
	// A contract without a modifies clause claims the function changes nothing that existed
	// before the call; callers rely on that, so it is an obligation here ("modifies *" opts out).
	if !c.ModAll {
		vc.frameObligations(fr, c)
	}
	// model variables: parameters and receiver fields
	var vars [][2]string
	for _, prm := range fn.Params {
		vars = append(vars, vc.modelVars(prm.Name(), fr.vals[prm], prm.Type(), 0)...)
	}
	for _, o := range vc.Obls {
		o.Vars = vars
	}
	res.Obls = vc.Obls
	res.Dropped = vc.Dropped
	for t := range vc.Trusted {
		res.Trusted = append(res.Trusted, t)
	}
	sort.Strings(res.Trusted)
	for a := range vc.Assumptions {
		res.Assumptions = append(res.Assumptions, a)
	}
	sort.Strings(res.Assumptions)
	res.Errors = append(res.Errors, vc.Errors...)
	return
}

func retBlock(fn *ssa.Function, r retInfo) *ssa.BasicBlock {
	// the block whose reach term matches
	for _, b := range fn.Blocks {
		if len(b.Instrs) > 0 {
			if _, ok := b.Instrs[len(b.Instrs)-1].(*ssa.Return); ok {
				return b
			}
		}
	}
	return fn.Blocks[0]
}

func (vc *VC) paramVal(name string, t types.Type) *Val {
	s := vc.sortOf(t)
	n := "p." + name
	vc.S.Declare(n, s)
	vc.S.Assert(vc.rangeFact(q(n), t, 0))
	return &Val{T: q(n), Typ: t}
}

func (vc *VC) assumeAllocated(v *Val, t types.Type, al Term) {
	if isOpaqueSpecial(t) {
		return
	}
	switch u := t.Underlying().(type) {
	case *types.Pointer, *types.Map:
		if isOpaqueSpecial(t) {
			return
		}
		vc.S.Assert(or(eq(v.T, "0"), sel(al, v.T)))
	case *types.Slice:
		b := "(sl-base " + v.T + ")"
		vc.S.Assert(or(eq(b, "0"), sel(al, b)))
	case *types.Struct:
		stT, _ := structOf(t)
		name := vc.structSort(stT, u)
		for i := 0; i < u.NumFields(); i++ {
			ft := u.Field(i).Type()
			switch ft.Underlying().(type) {
			case *types.Pointer, *types.Map, *types.Slice:
				vc.assumeAllocated(&Val{T: fmt.Sprintf("(%s %s)", vc.accessor(name, u, i), v.T), Typ: ft}, ft, al)
			}
		}
	}
}

// modelVars lists (name, term) pairs whose model values describe the inputs.
func (vc *VC) modelVars(name string, v *Val, t types.Type, depth int) [][2]string {
	var out [][2]string
	if v == nil {
		return nil
	}
	term := vc.term(v)
	switch u := t.Underlying().(type) {
	case *types.Pointer:
		out = append(out, [2]string{name, term})
		if st, ok := u.Elem().Underlying().(*types.Struct); ok && depth < 2 && !isOpaqueSpecial(u.Elem()) {
			for i := 0; i < st.NumFields(); i++ {
				fn := fieldKey(u.Elem(), i)
				if _, known := vc.heapSorts[fn]; !known {
					continue
				}
				ft := st.Field(i).Type()
				fv := &Val{T: sel(vc.root.Get(fn), term), Typ: ft}
				out = append(out, vc.modelVars(name+"."+st.Field(i).Name(), fv, ft, depth+1)...)
			}
		}
	case *types.Struct:
		if isOpaqueSpecial(t) {
			return [][2]string{{name, term}}
		}
		stT, _ := structOf(t)
		sn := vc.structSort(stT, u)
		for i := 0; i < u.NumFields(); i++ {
			ft := u.Field(i).Type()
			fv := &Val{T: fmt.Sprintf("(%s %s)", vc.accessor(sn, u, i), term), Typ: ft}
			out = append(out, vc.modelVars(name+"."+u.Field(i).Name(), fv, ft, depth+1)...)
		}
	case *types.Slice:
		out = append(out, [2]string{name + ".len", "(sl-len " + term + ")"})
		if b, ok := u.Elem().Underlying().(*types.Basic); ok && b.Info()&types.IsInteger != 0 {
			mem := vc.root.Get(vc.memName(u.Elem()))
			for i := 0; i < 24; i++ {
				el := sel(sel(mem, "(sl-base "+term+")"), add("(sl-off "+term+")", intLit64(int64(i))))
				vc.S.decls = append(vc.S.decls, "(assert "+vc.rangeFact(el, u.Elem(), 0)+")") // type invariant of the element
				out = append(out, [2]string{fmt.Sprintf("%s[%d]", name, i), el})
			}
		}
	case *types.Array:
		if u.Len() <= 64 {
			if b, ok := u.Elem().Underlying().(*types.Basic); ok && b.Info()&types.IsInteger != 0 {
				for i := int64(0); i < u.Len(); i++ {
					out = append(out, [2]string{fmt.Sprintf("%s[%d]", name, i), sel(term, intLit64(i))})
				}
			}
		}
	default:
		switch vc.sortOf(t) {
		case "Int", "Bool", "Real":
			out = append(out, [2]string{name, term})
		case "Str":
			out = append(out, [2]string{name + ".len", "(str-len " + term + ")"})
			for i := 0; i < 16; i++ {
				out = append(out, [2]string{fmt.Sprintf("%s[%d]", name, i), fmt.Sprintf("(str-at %s %d)", term, i)})
			}
		}
	}
	return out
}

// frameObligations: every heap name written by the function is unchanged at
// return outside the declared modifies locations, for objects allocated at entry.
func (vc *VC) frameObligations(fr *Frame, c *Contract) {
	if vc.written["*"] {
		var by []string
		for k := range vc.Dropped {
			if strings.HasPrefix(k, "whole-heap-havoc-by:") {
				by = append(by, strings.TrimPrefix(k, "whole-heap-havoc-by:"))
			}
		}
		sort.Strings(by)
		vc.addObl(&Obligation{Kind: "frame", Anchor: "all", Props: c.Props, Desc: "function havocs the whole heap (unknown callee: " + strings.Join(by, ", ") + ") but declares a modifies clause",
			Goals: []Goal{{Reach: "true", Cond: "false"}}, Mark: vc.S.Mark()})
		return
	}
	env := &SpecEnv{fr: fr, heap: vc.root, old: vc.root, block: fr.fn.Blocks[0], idx: 0, bound: map[string]*Val{}}
	allowed := map[string][]modLoc{}
	for _, m := range c.Modifies {
		for _, l := range env.modLocs(m.E) {
			allowed[l.Heap] = append(allowed[l.Heap], l)
		}
	}
	al := vc.root.Get("$alloc")
	for _, name := range sortedKeys(vc.written) {
		if name == "$alloc" || name == "*" || strings.HasPrefix(name, "G|ghost.") || strings.HasPrefix(name, "GV|") {
			continue
		}
		if strings.HasPrefix(name, "G|") {
			if _, ok := allowed[name]; ok {
				continue
			}
			var goals []Goal
			for _, r := range fr.rets {
				goals = append(goals, Goal{Reach: r.reach, Cond: eq(r.heap.Get(name), vc.root.Get(name))})
			}
			vc.addObl(&Obligation{Kind: "frame", Anchor: shortType(name), Props: c.Props, Desc: "modifies: " + name + " unchanged", Goals: goals, Mark: vc.S.Mark()})
			continue
		}
		whole := false
		var ne []Term
		for _, l := range allowed[name] {
			if l.Whole {
				whole = true
			}
			ne = append(ne, not(eq("r", l.Ref)))
		}
		if whole {
			continue
		}
		var goals []Goal
		for _, r := range fr.rets {
			goals = append(goals, Goal{Reach: r.reach, Cond: fmt.Sprintf("(forall ((r Int)) (=> (and (select %s r) %s) (= (select %s r) (select %s r))))", al, and(ne...), r.heap.Get(name), vc.root.Get(name))})
		}
		vc.addObl(&Obligation{Kind: "frame", Anchor: shortType(name), Props: c.Props, Desc: "modifies: only declared locations of " + shortType(name) + " change", Goals: goals, Mark: vc.S.Mark()})
	}
}

func collectHeld(e Expr, env *SpecEnv, into map[string]bool) {
	switch x := e.(type) {
	case *Binary:
		if x.Op == "&&" {
			collectHeld(x.X, env, into)
			collectHeld(x.Y, env, into)
		}
	case *CallE:
		if id, ok := x.Fun.(*Ident); ok && id.Name == "held" && len(x.Args) == 1 {
			func() {
				defer func() { recover() }()
				mv := env.addrOf(x.Args[0])
				if mv.P != nil {
					into[mv.P.Heap+"@"+mv.P.Ref] = true
				}
			}()
		}
	}
}

// registerFieldHeap registers the sort of a field heap name "F|<pkg>.<Type>|<field>".
func (vc *VC) registerFieldHeap(name string) {
	if _, ok := vc.heapSorts[name]; ok {
		return
	}
	parts := strings.Split(name, "|")
	if len(parts) != 3 {
		return
	}
	i := strings.LastIndex(parts[1], ".")
	if i < 0 {
		return
	}
	t, err := vc.P.ResolveType(parts[1][:i], parts[1][i+1:])
	if err != nil {
		return
	}
	st, ok := t.Underlying().(*types.Struct)
	if !ok {
		return
	}
	for k := 0; k < st.NumFields(); k++ {
		if st.Field(k).Name() == parts[2] {
			vc.fieldName(t, k)
		}
	}
}

// guardMap collects `guarded <Type.mutexField>: f1, f2` declarations from all contracts.
func (p *Prog) guardMap() map[string][]string {
	out := map[string][]string{}
	type gd struct{ pkg, g string }
	var all []gd
	for _, c := range p.CS.ByKey {
		for _, g := range c.Guarded {
			all = append(all, gd{c.Pkg, g})
		}
	}
	for _, g := range p.CS.GuardDecls {
		all = append(all, gd{g[0], g[1]})
	}
	for _, x := range all {
		c := struct{ Pkg string }{x.pkg}
		for _, g := range []string{x.g} {
			// format: pkgpath.Type.mu: f1, f2
			i := strings.Index(g, ":")
			if i < 0 {
				continue
			}
			lhs := strings.TrimSpace(g[:i])
			j := strings.LastIndex(lhs, ".")
			if j < 0 {
				continue
			}
			typ, mu := lhs[:j], lhs[j+1:]
			full := c.Pkg + "." + typ
			for _, f := range strings.Split(g[i+1:], ",") {
				f = strings.TrimSpace(f)
				if strings.HasPrefix(f, "ghost:") {
					// a ghost variable protected by the mutex: unknown after re-acquisition
					out["F|"+full+"|"+mu] = append(out["F|"+full+"|"+mu], "G|ghost."+strings.TrimPrefix(f, "ghost:"))
				} else if f != "" {
					out["F|"+full+"|"+mu] = append(out["F|"+full+"|"+mu], "F|"+full+"|"+f)
				}
			}
		}
	}
	return out
}

// SMT renders the script for one obligation.
func (o *Obligation) SMT(s *Script, getModel bool) string { return o.SMTGoal(s, getModel, -1) }

// SMTGoal renders the script for goal number only of the obligation (only < 0: all goals, as one
// disjunction). The obligation holds iff the script of every single goal is unsatisfiable.
func (o *Obligation) SMTGoal(s *Script, getModel bool, only int) string {
	var sb strings.Builder
	sb.WriteString(preamble)
	for _, d := range s.decls {
		sb.WriteString(d)
		sb.WriteString("\n")
	}
	n := o.Mark
	if n > len(s.asserts) {
		n = len(s.asserts)
	}
	for _, a := range s.asserts[:n] {
		sb.WriteString(a)
		sb.WriteString("\n")
	}
	var gs []Term
	for i, g := range o.Goals {
		if only >= 0 && i != only {
			continue
		}
		gs = append(gs, and(g.Reach, not(g.Cond)))
	}
	sb.WriteString("(assert " + or(gs...) + ")\n(check-sat)\n")
	if getModel && len(o.Vars) > 0 {
		var ts []string
		for _, v := range o.Vars {
			ts = append(ts, v[1])
		}
		sb.WriteString("(get-value (" + strings.Join(ts, " ") + "))\n")
	}
	return sb.String()
}

// retWhere names the source line of a return (diagnostics).
func (vc *VC) retWhere(r *retInfo) string {
	if r.block == nil || len(r.block.Instrs) == 0 {
		return ""
	}
	pos := vc.P.SSA.Fset.Position(r.block.Instrs[len(r.block.Instrs)-1].Pos())
	return fmt.Sprintf("return at %s:%d", shortFile(pos.Filename), pos.Line)
}
