package vc

import (
	"bufio"
	"fmt"
	"os"
	"regexp"
	"sort"
	"strconv"
	"strings"
)

// Clause is one requires/ensures/invariant/assert expression.
type Clause struct {
	Src   string
	E     Expr
	Props []string // properties this clause belongs to (empty: the block's)
	File  string
	Line  int
}

type AtCall struct {
	Callee string // suffix-matched against the callee's qualified name
	Kind   string // "assert" | "assume"
	After  bool   // evaluated after the call returns ($ret is the result)
	Let    string // kind "let": ghost name bound to the expression's value at that point
	Cl     Clause
}

type GhostFunc struct {
	Name    string
	Params  []string // names
	PTypes  []string // Go type expressions
	Result  string
	Pkg     string
	Def     Expr // optional definition
	DefSrc  string
	Builtin bool
}

type GhostField struct {
	Type, Name, GoType, Pkg string
}

// LockInv: an invariant over the fields guarded by a mutex; assumed after every
// acquisition, proved at every release (rely/guarantee over atomic lock regions).
type LockInv struct {
	Pkg, Mutex, Recv string
	Cl               Clause
}

type GhostSet struct {
	Name string
	Cl   Clause
}

type Axiom struct {
	Name string
	Cl   Clause
	Pkg  string
}

// LoopLet is a ghost snapshot bound at loop entry.
type LoopLet struct {
	Name string
	Cl   Clause
}

type Contract struct {
	Pkg            string
	Func           string // "(*T).M", "T.M", "F", "F$1"
	ParamsOvr      []string
	Props          []string
	Requires       []Clause
	Ensures        []Clause
	TrustedEnsures []Clause
	LoopInv        map[int][]Clause
	LoopLets       map[int][]LoopLet // ghost snapshots taken when the loop is entered ("loop K let name = expr")
	Modifies       []Clause
	ModAll         bool // default for unknown callee; contracts default to modifies nothing unless declared
	HasMod         bool
	Checks         map[string]bool
	Inline         bool
	InlineCalls    []string // caller-side: execute the bodies of these callees (lemmas over composed bodies)
	Trusted        bool // contract is assumed, body not verified (extern / interface / stated)
	TrustWhy       string
	Lemma          bool
	AtCalls        []AtCall
	Asserts        []AtCall // reserved
	Census         []Census
	Guarded        []string
	Arith          string
	AllocLimit     *Clause
	GhostSets      []GhostSet
	GhostInits     []GhostSet
	Unroll         map[int]int
	File           string
	Line           int
	Notes          []string
}

// Census: "calls to Callee inside this package happen only in the listed functions".
type Census struct {
	Callee string
	Funcs  []string
	Props  []string
	Line   int
}

type ContractSet struct {
	ByKey       map[string]*Contract // pkgpath + "::" + Func
	Ghosts      map[string]*GhostFunc
	Axioms      []*Axiom
	Census      []*PkgCensus
	Files       []string
	GuardDecls  [][2]string // pkg, "Type.mu: f1, f2"
	ctxPkg      string
	GhostFields map[string]*GhostField
	GhostVars   map[string]*GhostField
	InitCalls   []*InitCall
	Statics     []*StaticDecl
	LockInvs    []*LockInv
}

type PkgCensus struct {
	Pkg string
	Census
}

func NewContractSet() *ContractSet {
	return &ContractSet{ByKey: map[string]*Contract{}, Ghosts: map[string]*GhostFunc{}, GhostFields: map[string]*GhostField{}, GhostVars: map[string]*GhostField{}}
}

var reSpecLine = regexp.MustCompile(`^\s*//\s?@\s?(.*)$`)
var reTag = regexp.MustCompile(`^(\w+)\[([\w,]+)\]\s*(.*)$`)

// ParseContractFile reads //@ lines from a file. pkgPath is the package the
// file belongs to ("" for extern spec files, where func names are qualified).
func (cs *ContractSet) ParseContractFile(path, pkgPath string) error {
	f, err := os.Open(path)
	if err != nil {
		return err
	}
	defer f.Close()
	cs.Files = append(cs.Files, path)
	sc := bufio.NewScanner(f)
	sc.Buffer(make([]byte, 1<<20), 1<<20)
	var cur *Contract
	ln := 0
	var pending string
	pendingLine := 0
	flush := func() error {
		if pending == "" {
			return nil
		}
		err := cs.directive(&cur, pending, path, pendingLine, pkgPath)
		pending = ""
		return err
	}
	for sc.Scan() {
		ln++
		m := reSpecLine.FindStringSubmatch(sc.Text())
		if m == nil {
			if err := flush(); err != nil {
				return err
			}
			continue
		}
		body := strings.TrimSpace(m[1])
		if body == "" {
			continue
		}
		// continuation lines start with '|'
		if strings.HasPrefix(body, "|") {
			pending += " " + strings.TrimSpace(body[1:])
			continue
		}
		if err := flush(); err != nil {
			return err
		}
		pending = body
		pendingLine = ln
	}
	return flush()
}

func (cs *ContractSet) directive(cur **Contract, body, path string, ln int, pkgPath string) error {
	fail := func(format string, a ...any) error {
		return fmt.Errorf("%s:%d: %s", path, ln, fmt.Sprintf(format, a...))
	}
	word, rest := body, ""
	if i := strings.IndexAny(body, " \t"); i >= 0 {
		word, rest = body[:i], strings.TrimSpace(body[i+1:])
	}
	var tags []string
	if i := strings.Index(word, "["); i >= 0 && strings.HasSuffix(word, "]") {
		tags = strings.Split(word[i+1:len(word)-1], ",")
		word = word[:i]
	}
	mk := func(src string) (Clause, error) {
		e, err := ParseSpec(src)
		if err != nil {
			return Clause{}, fail("%v", err)
		}
		return Clause{Src: src, E: e, Props: tags, File: path, Line: ln}, nil
	}
	switch word {
	case "#", "note":
		if *cur != nil {
			(*cur).Notes = append((*cur).Notes, rest)
		}
		return nil
	case "func":
		name := rest
		var povr []string
		if i := strings.LastIndex(rest, "("); i > 0 && strings.HasSuffix(rest, ")") && !strings.HasPrefix(rest[i:], "(*") {
			// param override list: func pkg.F(a, b)
			inner := rest[i+1 : len(rest)-1]
			name = strings.TrimSpace(rest[:i])
			for _, p := range strings.Split(inner, ",") {
				if p = strings.TrimSpace(p); p != "" {
					povr = append(povr, p)
				}
			}
		}
		pk := pkgPath
		if pk == "" {
			// qualified: path/to/pkg.Func or path/to/pkg.(*T).M  — split at the first '.' after the last '/'
			s := name
			slash := strings.LastIndex(s, "/")
			dot := strings.Index(s[slash+1:], ".")
			// versioned import paths (gopkg.in/yaml.v3.Marshal): the package name ends at the last
			// ".vN" element, the function follows it
			if m := regexp.MustCompile(`^[A-Za-z0-9_-]+\.v[0-9]+\.`).FindString(s[slash+1:]); m != "" {
				dot = len(m) - 1
			}
			if dot < 0 {
				return fail("extern func needs a qualified name: %s", name)
			}
			pk = s[:slash+1+dot]
			name = s[slash+1+dot+1:]
		}
		c := &Contract{Pkg: pk, Func: name, ParamsOvr: povr, LoopInv: map[int][]Clause{}, Checks: map[string]bool{}, Unroll: map[int]int{}, File: path, Line: ln}
		key := pk + "::" + name
		if _, dup := cs.ByKey[key]; dup {
			return fail("duplicate contract for %s", key)
		}
		cs.ByKey[key] = c
		*cur = c
		return nil
	case "package":
		// type-resolution context for ghost functions and axioms of an extern spec file
		cs.ctxPkg = rest
		return nil
	case "ghost":
		// ghost func name(p T, q U) R [= expr]
		if pkgPath == "" {
			pkgPath = cs.ctxPkg
		}
		if strings.HasPrefix(rest, "var ") {
			// ghost var <name> <gotype>: global ghost state
			fs := strings.Fields(rest)
			if len(fs) != 3 {
				return fail("ghost var <name> <gotype>")
			}
			cs.GhostVars[fs[1]] = &GhostField{Name: fs[1], GoType: fs[2], Pkg: pkgPath}
			return nil
		}
		if strings.HasPrefix(rest, "field ") {
			// ghost field <qualified type> <name> <go type>
			fs := strings.Fields(rest)
			if len(fs) != 4 {
				return fail("ghost field <type> <name> <gotype>")
			}
			cs.GhostFields[fs[1]+"."+fs[2]] = &GhostField{Type: fs[1], Name: fs[2], GoType: fs[3], Pkg: pkgPath}
			return nil
		}
		g, err := parseGhost(rest, pkgPath)
		if err != nil {
			return fail("%v", err)
		}
		cs.Ghosts[g.Name] = g
		return nil
	case "axiom":
		i := strings.Index(rest, ":")
		if i < 0 {
			return fail("axiom needs 'name: expr'")
		}
		cl, err := mk(strings.TrimSpace(rest[i+1:]))
		if err != nil {
			return err
		}
		if pkgPath == "" {
			pkgPath = cs.ctxPkg
		}
		cs.Axioms = append(cs.Axioms, &Axiom{Name: strings.TrimSpace(rest[:i]), Cl: cl, Pkg: pkgPath})
		return nil
	case "guarded":
		if *cur == nil || true {
			cs.GuardDecls = append(cs.GuardDecls, [2]string{pkgPath, rest})
			return nil
		}
	case "mapinit", "callsonly", "mapwritesonly", "mapdeletesonly", "fieldwritesonly":
		d, err := parseStaticDecl(word, rest)
		if err != nil {
			return fail("%v", err)
		}
		d.Pkg, d.Props, d.Line = pkgPath, tags, ln
		cs.Statics = append(cs.Statics, d)
		return nil
	case "lockinv":
		// lockinv Type.mu(recv): expr  — holds whenever the mutex is free
		i := strings.Index(rest, ":")
		j := strings.Index(rest, "(")
		k := strings.Index(rest, ")")
		if i < 0 || j < 0 || k < j || i < k {
			return fail("lockinv Type.mu(recv): expr")
		}
		cl, err := mk(strings.TrimSpace(rest[i+1:]))
		if err != nil {
			return err
		}
		cs.LockInvs = append(cs.LockInvs, &LockInv{Pkg: pkgPath, Mutex: strings.TrimSpace(rest[:j]), Recv: strings.TrimSpace(rest[j+1 : k]), Cl: cl})
		return nil
	case "initcall":
		ic, err := parseInitCall(rest)
		if err != nil {
			return fail("%v", err)
		}
		ic.Pkg, ic.Props, ic.Line = pkgPath, tags, ln
		cs.InitCalls = append(cs.InitCalls, ic)
		return nil
	case "census":
		// census[Cxx] callee in f1, f2, ...
		i := strings.Index(rest, " in ")
		if i < 0 {
			return fail("census needs 'callee in f1, f2'")
		}
		var fs []string
		for _, s := range strings.Split(rest[i+4:], ",") {
			if s = strings.TrimSpace(s); s != "" && s != "-" {
				fs = append(fs, s)
			}
		}
		sort.Strings(fs)
		cs.Census = append(cs.Census, &PkgCensus{Pkg: pkgPath, Census: Census{Callee: strings.TrimSpace(rest[:i]), Funcs: fs, Props: tags, Line: ln}})
		return nil
	}
	c := *cur
	if c == nil {
		return fail("directive %q outside a func block", word)
	}
	switch word {
	case "prop":
		c.Props = append(c.Props, strings.Fields(strings.ReplaceAll(rest, ",", " "))...)
	case "requires":
		cl, err := mk(rest)
		if err != nil {
			return err
		}
		c.Requires = append(c.Requires, cl)
	case "ensures":
		cl, err := mk(rest)
		if err != nil {
			return err
		}
		c.Ensures = append(c.Ensures, cl)
	case "trusted-ensures":
		// a postcondition callers may assume but which is NOT proved on the body (listed as an assumption)
		cl, err := mk(rest)
		if err != nil {
			return err
		}
		c.TrustedEnsures = append(c.TrustedEnsures, cl)
	case "modifies":
		c.HasMod = true
		if rest == "" || rest == "nothing" {
			return nil
		}
		for _, part := range splitTop(rest) {
			if part == "*" {
				// everything reachable may change (ghost variables only if also listed)
				c.ModAll = true
				continue
			}
			cl, err := mk(part)
			if err != nil {
				return err
			}
			c.Modifies = append(c.Modifies, cl)
		}
	case "loop":
		// loop K invariant expr | loop K unroll N
		fs := strings.SplitN(rest, " ", 3)
		if len(fs) < 3 {
			return fail("loop K invariant expr")
		}
		k, err := strconv.Atoi(fs[0])
		if err != nil {
			return fail("loop ordinal: %v", err)
		}
		switch fs[1] {
		case "invariant":
			cl, err := mk(fs[2])
			if err != nil {
				return err
			}
			c.LoopInv[k] = append(c.LoopInv[k], cl)
		case "let":
			// loop K let name = expr: the value of expr in the state in which the loop is entered
			i := strings.Index(fs[2], "=")
			if i <= 0 {
				return fail("loop K let name = expr")
			}
			cl, err := mk(strings.TrimSpace(fs[2][i+1:]))
			if err != nil {
				return err
			}
			if c.LoopLets == nil {
				c.LoopLets = map[int][]LoopLet{}
			}
			c.LoopLets[k] = append(c.LoopLets[k], LoopLet{Name: strings.TrimSpace(fs[2][:i]), Cl: cl})
		case "unroll":
			n, err := strconv.Atoi(strings.TrimSpace(fs[2]))
			if err != nil {
				return fail("unroll count: %v", err)
			}
			c.Unroll[k] = n
		default:
			return fail("loop K invariant|unroll")
		}
	case "check":
		for _, w := range strings.Fields(rest) {
			c.Checks[w] = true
		}
	case "inline":
		c.Inline = true
	case "inlinecall":
		c.InlineCalls = append(c.InlineCalls, strings.Fields(rest)...)
	case "trusted":
		c.Trusted = true
		c.TrustWhy = rest
	case "ghostset":
		// ghostset name = expr : ghost assignment performed when the function returns
		i := strings.Index(rest, "=")
		if i < 0 {
			return fail("ghostset <name> = <expr>")
		}
		cl, err := mk(strings.TrimSpace(rest[i+1:]))
		if err != nil {
			return err
		}
		c.GhostSets = append(c.GhostSets, GhostSet{Name: strings.TrimSpace(rest[:i]), Cl: cl})
	case "ghostinit":
		// ghostinit name = expr : ghost assignment performed on entry to the function
		i := strings.Index(rest, "=")
		if i < 0 {
			return fail("ghostinit <name> = <expr>")
		}
		cl, err := mk(strings.TrimSpace(rest[i+1:]))
		if err != nil {
			return err
		}
		c.GhostInits = append(c.GhostInits, GhostSet{Name: strings.TrimSpace(rest[:i]), Cl: cl})
	case "lemma":
		c.Lemma = true
	case "alloc-limit":
		cl, err := mk(rest)
		if err != nil {
			return err
		}
		c.AllocLimit = &cl
	case "arith":
		c.Arith = rest
	case "guarded":
		c.Guarded = append(c.Guarded, rest)
	case "at", "after":
		// at call Callee assert expr   |   after call Callee assume expr (evaluated in the post-call state)
		fs := strings.SplitN(rest, " ", 4)
		if len(fs) < 4 || fs[0] != "call" || (fs[2] != "assert" && fs[2] != "assume" && fs[2] != "let" && fs[2] != "set") {
			return fail("at call <callee> assert|assume <expr>  |  after call <callee> let <name> = <expr>")
		}
		letName := ""
		src := fs[3]
		if fs[2] == "let" || fs[2] == "set" {
			i := strings.Index(src, "=")
			if i < 0 {
				return fail("let <name> = <expr>")
			}
			letName = strings.TrimSpace(src[:i])
			src = strings.TrimSpace(src[i+1:])
		}
		cl, err := mk(src)
		if err != nil {
			return err
		}
		c.AtCalls = append(c.AtCalls, AtCall{Callee: fs[1], Kind: fs[2], Cl: cl, After: word == "after", Let: letName})
	default:
		return fail("unknown directive %q", word)
	}
	return nil
}

// splitTop splits on commas not nested in brackets.
func splitTop(s string) []string {
	var out []string
	depth, start := 0, 0
	for i, c := range s {
		switch c {
		case '(', '[':
			depth++
		case ')', ']':
			depth--
		case ',':
			if depth == 0 {
				out = append(out, strings.TrimSpace(s[start:i]))
				start = i + 1
			}
		}
	}
	if t := strings.TrimSpace(s[start:]); t != "" {
		out = append(out, t)
	}
	return out
}

func parseGhost(rest, pkg string) (*GhostFunc, error) {
	if !strings.HasPrefix(rest, "func ") {
		return nil, fmt.Errorf("ghost func ...")
	}
	rest = strings.TrimSpace(rest[5:])
	i := strings.Index(rest, "(")
	if i < 0 {
		return nil, fmt.Errorf("ghost func name(params) result")
	}
	g := &GhostFunc{Name: strings.TrimSpace(rest[:i]), Pkg: pkg}
	// find matching paren
	depth, j := 0, i
	for ; j < len(rest); j++ {
		if rest[j] == '(' {
			depth++
		} else if rest[j] == ')' {
			depth--
			if depth == 0 {
				break
			}
		}
	}
	if j >= len(rest) {
		return nil, fmt.Errorf("unbalanced parens in ghost func")
	}
	for _, p := range splitTop(rest[i+1 : j]) {
		fs := strings.SplitN(strings.TrimSpace(p), " ", 2)
		if len(fs) != 2 {
			return nil, fmt.Errorf("ghost param needs 'name type': %q", p)
		}
		g.Params = append(g.Params, fs[0])
		g.PTypes = append(g.PTypes, strings.TrimSpace(fs[1]))
	}
	tail := strings.TrimSpace(rest[j+1:])
	if k := strings.Index(tail, "="); k >= 0 && !strings.HasPrefix(tail[k:], "==") {
		g.DefSrc = strings.TrimSpace(tail[k+1:])
		e, err := ParseSpec(g.DefSrc)
		if err != nil {
			return nil, err
		}
		g.Def = e
		tail = strings.TrimSpace(tail[:k])
	}
	g.Result = tail
	if g.Result == "" {
		g.Result = "bool"
	}
	return g, nil
}

// HasProp reports whether clause cl (inside contract c) belongs to prop.
func (c *Contract) ClauseProps(cl Clause) []string {
	if len(cl.Props) > 0 {
		return cl.Props
	}
	return c.Props
}

func (c *Contract) AllProps() []string {
	set := map[string]bool{}
	for _, p := range c.Props {
		set[p] = true
	}
	add := func(cls []Clause) {
		for _, cl := range cls {
			for _, p := range cl.Props {
				set[p] = true
			}
		}
	}
	add(c.Requires)
	add(c.Ensures)
	for _, l := range c.LoopInv {
		add(l)
	}
	for _, a := range c.AtCalls {
		add([]Clause{a.Cl})
	}
	var out []string
	for p := range set {
		out = append(out, p)
	}
	sort.Strings(out)
	return out
}

func hasStr(xs []string, s string) bool {
	for _, x := range xs {
		if x == s {
			return true
		}
	}
	return false
}
