package vc

// Spec expression language used in //@ contract lines: a Go-like expression
// syntax extended with ==>, <==>, old(e), forall/exists.

import (
	"fmt"
	"math/big"
	"strings"
	"unicode"
)

type Expr interface{ String() string }

type (
	Ident   struct{ Name string }
	IntLit  struct{ V *big.Int }
	RealLit struct{ V string }
	BoolLit struct{ V bool }
	StrLit  struct{ V string }
	Unary   struct {
		Op string
		X  Expr
	}
	Binary struct {
		Op   string
		X, Y Expr
	}
	CallE struct {
		Fun  Expr // Ident or Sel
		Args []Expr
	}
	Sel struct {
		X    Expr
		Name string
	}
	IndexE struct{ X, I Expr }
	SliceE struct{ X, Lo, Hi Expr }
	Quant  struct {
		Forall bool
		Var    string
		Lo, Hi Expr   // integer range lo <= v < hi, or nil
		Type   string // when Lo == nil: a Go type name
		Body   Expr
	}
	IteE struct{ C, A, B Expr }
)

func (e *Ident) String() string   { return e.Name }
func (e *IntLit) String() string  { return e.V.String() }
func (e *RealLit) String() string { return e.V }
func (e *BoolLit) String() string { return fmt.Sprint(e.V) }
func (e *StrLit) String() string  { return fmt.Sprintf("%q", e.V) }
func (e *Unary) String() string   { return "(" + e.Op + e.X.String() + ")" }
func (e *Binary) String() string  { return "(" + e.X.String() + " " + e.Op + " " + e.Y.String() + ")" }
func (e *CallE) String() string {
	var a []string
	for _, x := range e.Args {
		a = append(a, x.String())
	}
	return e.Fun.String() + "(" + strings.Join(a, ", ") + ")"
}
func (e *Sel) String() string    { return e.X.String() + "." + e.Name }
func (e *IndexE) String() string { return e.X.String() + "[" + e.I.String() + "]" }
func (e *SliceE) String() string {
	lo, hi := "", ""
	if e.Lo != nil {
		lo = e.Lo.String()
	}
	if e.Hi != nil {
		hi = e.Hi.String()
	}
	return e.X.String() + "[" + lo + ":" + hi + "]"
}
func (e *Quant) String() string {
	q := "exists"
	if e.Forall {
		q = "forall"
	}
	if e.Lo != nil {
		return fmt.Sprintf("(%s %s in %s..%s: %s)", q, e.Var, e.Lo, e.Hi, e.Body)
	}
	return fmt.Sprintf("(%s %s %s: %s)", q, e.Var, e.Type, e.Body)
}
func (e *IteE) String() string { return fmt.Sprintf("ite(%s, %s, %s)", e.C, e.A, e.B) }

type tok struct {
	kind string // id, int, str, op, eof
	text string
}

type lexer struct {
	toks []tok
	pos  int
}

func lexSpec(s string) ([]tok, error) {
	var toks []tok
	i := 0
	for i < len(s) {
		c := s[i]
		switch {
		case c == ' ' || c == '\t':
			i++
		case unicode.IsLetter(rune(c)) || c == '_' || c == '$':
			j := i + 1
			for j < len(s) && (unicode.IsLetter(rune(s[j])) || unicode.IsDigit(rune(s[j])) || s[j] == '_' || s[j] == '$') {
				j++
			}
			toks = append(toks, tok{"id", s[i:j]})
			i = j
		case unicode.IsDigit(rune(c)):
			j := i + 1
			for j < len(s) && (unicode.IsDigit(rune(s[j])) || unicode.IsLetter(rune(s[j])) || s[j] == '_') {
				j++
			}
			if j+1 < len(s) && s[j] == '.' && unicode.IsDigit(rune(s[j+1])) {
				j++
				for j < len(s) && unicode.IsDigit(rune(s[j])) {
					j++
				}
				toks = append(toks, tok{"real", s[i:j]})
				i = j
				break
			}
			toks = append(toks, tok{"int", s[i:j]})
			i = j
		case c == '"':
			j := i + 1
			for j < len(s) && s[j] != '"' {
				if s[j] == '\\' {
					j++
				}
				j++
			}
			if j >= len(s) {
				return nil, fmt.Errorf("unterminated string")
			}
			toks = append(toks, tok{"str", s[i+1 : j]})
			i = j + 1
		case c == '\'':
			if i+2 < len(s) && s[i+2] == '\'' {
				toks = append(toks, tok{"int", fmt.Sprint(int(s[i+1]))})
				i += 3
			} else {
				return nil, fmt.Errorf("bad char literal")
			}
		default:
			ops := []string{"<==>", "==>", "&&", "||", "==", "!=", "<=", ">=", "<<", ">>", "&^", ".."}
			matched := false
			for _, op := range ops {
				if strings.HasPrefix(s[i:], op) {
					toks = append(toks, tok{"op", op})
					i += len(op)
					matched = true
					break
				}
			}
			if !matched {
				if strings.ContainsRune("+-*/%<>!()[]{}.,:&|^?", rune(c)) {
					toks = append(toks, tok{"op", string(c)})
					i++
				} else {
					return nil, fmt.Errorf("unexpected character %q in spec %q", c, s)
				}
			}
		}
	}
	toks = append(toks, tok{"eof", ""})
	return toks, nil
}

func ParseSpec(s string) (e Expr, err error) {
	toks, err := lexSpec(s)
	if err != nil {
		return nil, err
	}
	p := &lexer{toks: toks}
	defer func() {
		if r := recover(); r != nil {
			if pe, ok := r.(parseErr); ok {
				err = fmt.Errorf("%s in %q", string(pe), s)
				return
			}
			panic(r)
		}
	}()
	e = p.parseExpr(0)
	if p.peek().kind != "eof" {
		return nil, fmt.Errorf("trailing tokens at %q in %q", p.peek().text, s)
	}
	return e, nil
}

type parseErr string

func (p *lexer) peek() tok { return p.toks[p.pos] }
func (p *lexer) next() tok { t := p.toks[p.pos]; p.pos++; return t }
func (p *lexer) isOp(s string) bool {
	t := p.peek()
	return t.kind == "op" && t.text == s
}
func (p *lexer) expect(s string) {
	t := p.next()
	if t.text != s {
		panic(parseErr(fmt.Sprintf("expected %q, got %q", s, t.text)))
	}
}

var binPrec = map[string]int{
	"<==>": 1, "==>": 2, "||": 3, "&&": 4,
	"==": 5, "!=": 5, "<": 5, "<=": 5, ">": 5, ">=": 5,
	"+": 6, "-": 6, "|": 6, "^": 6,
	"*": 7, "/": 7, "%": 7, "&": 7, "<<": 7, ">>": 7, "&^": 7,
}

func (p *lexer) parseExpr(minPrec int) Expr {
	lhs := p.parseUnary()
	for {
		t := p.peek()
		if t.kind != "op" {
			return lhs
		}
		prec, ok := binPrec[t.text]
		if !ok || prec < minPrec {
			return lhs
		}
		p.next()
		var rhs Expr
		if t.text == "==>" {
			rhs = p.parseExpr(prec) // right assoc
		} else {
			rhs = p.parseExpr(prec + 1)
		}
		lhs = &Binary{t.text, lhs, rhs}
	}
}

func (p *lexer) parseUnary() Expr {
	t := p.peek()
	if t.kind == "op" && (t.text == "!" || t.text == "-" || t.text == "*") {
		p.next()
		return &Unary{t.text, p.parseUnary()}
	}
	if t.kind == "id" && (t.text == "forall" || t.text == "exists") {
		p.next()
		v := p.next()
		if v.kind != "id" {
			panic(parseErr("quantifier variable expected"))
		}
		q := &Quant{Forall: t.text == "forall", Var: v.text}
		if p.peek().kind == "id" && p.peek().text == "in" {
			p.next()
			q.Lo = p.parseExpr(6)
			p.expect("..")
			q.Hi = p.parseExpr(6)
		} else {
			// type name up to ':'
			var sb strings.Builder
			for !p.isOp(":") {
				tt := p.next()
				if tt.kind == "eof" {
					panic(parseErr("quantifier type expected"))
				}
				sb.WriteString(tt.text)
			}
			q.Type = sb.String()
		}
		p.expect(":")
		q.Body = p.parseExpr(0)
		return q
	}
	return p.parsePostfix(p.parsePrimary())
}

func (p *lexer) parsePrimary() Expr {
	t := p.next()
	switch t.kind {
	case "int":
		v := new(big.Int)
		txt := strings.ReplaceAll(t.text, "_", "")
		if _, ok := v.SetString(txt, 0); !ok {
			panic(parseErr("bad integer " + t.text))
		}
		return &IntLit{v}
	case "real":
		return &RealLit{t.text}
	case "str":
		return &StrLit{t.text}
	case "id":
		switch t.text {
		case "true":
			return &BoolLit{true}
		case "false":
			return &BoolLit{false}
		}
		return &Ident{t.text}
	case "op":
		if t.text == "(" {
			e := p.parseExpr(0)
			p.expect(")")
			return e
		}
	}
	panic(parseErr(fmt.Sprintf("unexpected token %q", t.text)))
}

func (p *lexer) parsePostfix(x Expr) Expr {
	for {
		switch {
		case p.isOp("."):
			p.next()
			n := p.next()
			if n.kind != "id" {
				panic(parseErr("selector name expected"))
			}
			x = &Sel{x, n.text}
		case p.isOp("("):
			p.next()
			var args []Expr
			for !p.isOp(")") {
				args = append(args, p.parseExpr(0))
				if p.isOp(",") {
					p.next()
				}
			}
			p.expect(")")
			if id, ok := x.(*Ident); ok && id.Name == "ite" && len(args) == 3 {
				x = &IteE{args[0], args[1], args[2]}
			} else {
				x = &CallE{x, args}
			}
		case p.isOp("["):
			p.next()
			var lo, hi Expr
			if !p.isOp(":") {
				lo = p.parseExpr(0)
			}
			if p.isOp(":") {
				p.next()
				if !p.isOp("]") {
					hi = p.parseExpr(0)
				}
				p.expect("]")
				x = &SliceE{x, lo, hi}
			} else {
				p.expect("]")
				x = &IndexE{x, lo}
			}
		default:
			return x
		}
	}
}
