package vc

import (
	"fmt"
	"sort"
	"strings"

	"golang.org/x/tools/go/ssa"
)

// Heap is a lazily materialised, versioned map from heap-array names to SMT
// terms. Names:
//
//	F|<struct type>|<field>   : (Array Int <fieldsort>)   per-field Burstall heap
//	M|<elemsort>              : (Array Int (Array Int <elemsort>)) slice/array memory
//	C|<sort>                  : (Array Int <sort>)        cells for pointers to non-struct values
//	MD|<ksort>                : (Array Int (Array <ksort> Bool)) map domains
//	MV|<ksort>|<vsort>        : (Array Int (Array <ksort> <vsort>)) map values
//	ML                        : (Array Int Int)           map lengths
//	G|<pkg.var>               : <sort>                    package-level variable
//	$alloc                    : (Array Int Bool)          allocated refs
type Heap struct {
	vc    *VC
	kind  int // hRoot, hDerived, hHavoc, hMerge
	base  *Heap
	vars  map[string]Term
	only  map[string]bool // hHavoc: names havocked (nil = all mutable names)
	preds []*Heap
	conds []Term
	id    int
	tag   string
}

const (
	hRoot = iota
	hDerived
	hHavoc
	hMerge
)

func (vc *VC) newHeap(kind int, base *Heap) *Heap {
	vc.nheap++
	return &Heap{vc: vc, kind: kind, base: base, vars: map[string]Term{}, id: vc.nheap}
}

func (vc *VC) heapSort(name string) string {
	if s, ok := vc.heapSorts[name]; ok {
		return s
	}
	panic("heap name without sort: " + name)
}

func (vc *VC) regHeap(name, sort string) string {
	if old, ok := vc.heapSorts[name]; ok && old != sort {
		panic(fmt.Sprintf("heap %s sort clash %s vs %s", name, old, sort))
	}
	vc.heapSorts[name] = sort
	return name
}

func heapConstName(name string, ver string) string {
	return "H." + mangle(shortType(name)) + "@" + ver
}

func (h *Heap) Get(name string) Term {
	if t, ok := h.vars[name]; ok {
		return t
	}
	vc := h.vc
	var t Term
	switch h.kind {
	case hRoot:
		n := heapConstName(name, "pre")
		vc.S.Declare(n, vc.heapSort(name))
		t = q(n)
	case hDerived:
		return h.base.Get(name) // not cached: base may be shared
	case hHavoc:
		// a field no Go code stores to outside its allocating function keeps its value over a havoc - unless
		// this havoc NAMES it (a modifies clause of a trusted specification: reflection-based writers such as
		// yaml.Unmarshal store to fields no store instruction in the program mentions)
		if (h.only != nil && !h.only[name]) || (vc.immutable(name) && !(h.only != nil && h.only[name])) || (h.only == nil && strings.HasPrefix(name, "G|ghost.")) {
			t = h.base.Get(name)
			break
		}
		n := heapConstName(name, fmt.Sprintf("h%d%s", h.id, h.tag))
		vc.S.Declare(n, vc.heapSort(name))
		t = q(n)
		if name == "$alloc" && h.base != nil {
			// allocation is monotone
			vc.S.Assert(fmt.Sprintf("(forall ((r Int)) (! (=> (select %s r) (select %s r)) :pattern ((select %s r))))", h.base.Get(name), t, t))
		}
	case hMerge:
		ts := make([]Term, len(h.preds))
		same := true
		for i, p := range h.preds {
			ts[i] = p.Get(name)
			if ts[i] != ts[0] {
				same = false
			}
		}
		if same {
			t = ts[0]
		} else {
			n := heapConstName(name, fmt.Sprintf("m%d", h.id))
			vc.S.Declare(n, vc.heapSort(name))
			t = q(n)
			def := ts[len(ts)-1]
			for i := len(ts) - 2; i >= 0; i-- {
				def = ite(h.conds[i], ts[i], def)
			}
			vc.S.Assert(eq(t, def))
		}
	}
	h.vars[name] = t
	return t
}

func (h *Heap) Set(name string, t Term) {
	if h.kind != hDerived {
		panic("Set on non-derived heap")
	}
	// name the new version to keep terms small
	n := heapConstName(name, fmt.Sprintf("s%d", h.vc.S.nfresh+1))
	h.vc.S.nfresh++
	h.vc.S.Declare(n, h.vc.heapSort(name))
	h.vc.S.Assert(eq(q(n), t))
	h.vars[name] = q(n)
	h.vc.written[name] = true
}

func (h *Heap) Derive() *Heap { return h.vc.newHeap(hDerived, h) }

// Havoc returns a heap in which the given names (nil = every mutable name)
// have fresh unconstrained contents.
func (h *Heap) Havoc(only map[string]bool, tag string) *Heap {
	n := h.vc.newHeap(hHavoc, h)
	n.only = only
	n.tag = tag
	if only == nil {
		h.vc.written["*"] = true
	} else {
		for k := range only {
			h.vc.written[k] = true
		}
	}
	return n.Derive()
}

func (vc *VC) mergeHeaps(preds []*Heap, conds []Term) *Heap {
	if len(preds) == 1 {
		return preds[0].Derive()
	}
	m := vc.newHeap(hMerge, nil)
	m.preds = preds
	m.conds = conds
	return m.Derive()
}

func (vc *VC) immutable(name string) bool {
	if vc.P == nil || !strings.HasPrefix(name, "F|") {
		return false
	}
	if vc.noImmutable {
		return false
	}
	return !vc.P.Mutable[name]
}

// sortedKeysOf returns the keys of any string-keyed map in sorted order. Every map iteration that
// creates terms, declarations or assertions goes through a sorted order so that the same source
// tree always produces byte-identical queries (solver run time depends on declaration order).
func sortedKeysOf[V any](m map[string]V) []string {
	ks := make([]string, 0, len(m))
	for k := range m {
		ks = append(ks, k)
	}
	sort.Strings(ks)
	return ks
}

// sortedBlocks returns the blocks of a set in SSA index order.
func sortedBlocks(m map[*ssa.BasicBlock]bool) []*ssa.BasicBlock {
	bs := make([]*ssa.BasicBlock, 0, len(m))
	for b := range m {
		bs = append(bs, b)
	}
	sort.Slice(bs, func(i, j int) bool { return bs[i].Index < bs[j].Index })
	return bs
}

func sortedKeys(m map[string]bool) []string {
	var ks []string
	for k := range m {
		ks = append(ks, k)
	}
	sort.Strings(ks)
	return ks
}
