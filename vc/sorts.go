package vc

import (
	"fmt"
	"go/types"
	"math/big"
	"strings"
)

// sortOf maps a Go type to an SMT sort, declaring datatypes on demand.
func (vc *VC) sortOf(t types.Type) string {
	t = types.Unalias(t)
	if s, ok := specialSort(t); ok {
		return s
	}
	switch u := t.Underlying().(type) {
	case *types.Basic:
		switch {
		case u.Info()&types.IsBoolean != 0:
			return "Bool"
		case u.Info()&types.IsInteger != 0:
			return "Int"
		case u.Info()&types.IsString != 0:
			return "Str"
		case u.Info()&types.IsFloat != 0:
			return "Real"
		case u.Kind() == types.UnsafePointer:
			return "Int"
		case u.Kind() == types.UntypedNil:
			return "Int"
		}
		return "Int"
	case *types.Pointer, *types.Map, *types.Chan, *types.Signature:
		return "Int"
	case *types.Interface:
		return "Iface"
	case *types.Slice:
		return "Slice"
	case *types.Array:
		return "(Array Int " + vc.sortOf(u.Elem()) + ")"
	case *types.Struct:
		return vc.structSort(t, u)
	case *types.Tuple:
		return "Int"
	case *types.TypeParam:
		return "Int"
	}
	return "Int"
}

func specialSort(t types.Type) (string, bool) {
	n, ok := t.(*types.Named)
	if !ok || n.Obj().Pkg() == nil {
		return "", false
	}
	switch n.Obj().Pkg().Path() + "." + n.Obj().Name() {
	case "time.Time":
		return "Int", true
	case "sync.Mutex", "sync.RWMutex", "sync.WaitGroup", "sync.Once", "sync.Cond", "sync.Map", "sync.Pool":
		return "Int", true
	case "sync/atomic.Uint64", "sync/atomic.Int64", "sync/atomic.Uint32", "sync/atomic.Int32", "sync/atomic.Uintptr":
		return "Int", true
	case "sync/atomic.Bool":
		return "Bool", true
	case "sync/atomic.Value":
		return "Iface", true
	case "sync/atomic.Pointer":
		return "Int", true
	}
	return "", false
}

func isOpaqueSpecial(t types.Type) bool {
	_, ok := specialSort(types.Unalias(t))
	return ok
}

func (vc *VC) structSort(t types.Type, st *types.Struct) string {
	key := types.TypeString(t, nil)
	if s, ok := vc.structSorts[key]; ok {
		return s
	}
	name := "S_" + mangle(shortType(key))
	if len(name) > 80 {
		name = fmt.Sprintf("%s_%d", name[:60], len(vc.structSorts))
	}
	for _, other := range vc.structSorts {
		if other == name {
			name = fmt.Sprintf("%s_%d", name, len(vc.structSorts))
		}
	}
	vc.structSorts[key] = name
	var fields []string
	for i := 0; i < st.NumFields(); i++ {
		fs := vc.sortOf(st.Field(i).Type())
		fields = append(fields, fmt.Sprintf("(%s %s)", vc.accessor(name, st, i), fs))
	}
	if len(fields) == 0 {
		fields = append(fields, fmt.Sprintf("(%s_empty Int)", name))
	}
	vc.S.DeclareRaw("sort:"+name, fmt.Sprintf("(declare-datatypes ((%s 0)) (((mk_%s %s))))", name, name, strings.Join(fields, " ")))
	return name
}

func (vc *VC) accessor(sortName string, st *types.Struct, i int) string {
	return fmt.Sprintf("%s_%s", sortName, st.Field(i).Name())
}

func shortType(s string) string {
	return strings.ReplaceAll(s, ModPath+"/internal/", "")
}

// zeroOf returns the SMT term for the zero value of t.
func (vc *VC) zeroOf(t types.Type) Term {
	t = types.Unalias(t)
	if s, ok := specialSort(t); ok {
		if s == "Bool" {
			return "false"
		}
		if s == "Iface" {
			return "(mk-iface 0 0)"
		}
		if n, ok := t.(*types.Named); ok && n.Obj().Name() == "Time" {
			return "TimeZero"
		}
		return "0"
	}
	switch u := t.Underlying().(type) {
	case *types.Basic:
		switch {
		case u.Info()&types.IsBoolean != 0:
			return "false"
		case u.Info()&types.IsString != 0:
			return vc.strLit("")
		case u.Info()&types.IsFloat != 0:
			return "0.0"
		}
		return "0"
	case *types.Interface:
		return "(mk-iface 0 0)"
	case *types.Slice:
		return "(mk-slice 0 0 0 0)"
	case *types.Array:
		return fmt.Sprintf("((as const %s) %s)", vc.sortOf(t), vc.zeroOf(u.Elem()))
	case *types.Struct:
		name := vc.structSort(t, u)
		if u.NumFields() == 0 {
			return fmt.Sprintf("(mk_%s 0)", name)
		}
		var fs []string
		for i := 0; i < u.NumFields(); i++ {
			fs = append(fs, vc.zeroOf(u.Field(i).Type()))
		}
		return fmt.Sprintf("(mk_%s %s)", name, strings.Join(fs, " "))
	}
	return "0"
}

// strLit returns a Str constant for a Go string literal, with its length and
// (for short strings) characters asserted.
func (vc *VC) strLit(s string) Term {
	if id, ok := vc.strLits[s]; ok {
		return fmt.Sprintf("(str-lit %d)", id)
	}
	id := len(vc.strLits)
	vc.strLits[s] = id
	t := fmt.Sprintf("(str-lit %d)", id)
	vc.S.Assert(fmt.Sprintf("(= (str-len %s) %d)", t, len(s)))
	if len(s) <= 48 {
		for i := 0; i < len(s); i++ {
			vc.S.Assert(fmt.Sprintf("(= (str-at %s %d) %d)", t, i, s[i]))
		}
	}
	// distinctness from earlier literals
	for _, o := range sortedKeysOf(vc.strLits) {
		oid := vc.strLits[o]
		if oid != id && o != s {
			vc.S.Assert(fmt.Sprintf("(not (= %s (str-lit %d)))", t, oid))
		}
	}
	return t
}

// intRange returns (lo, hi) inclusive for an integer type, or ok=false.
func intRange(t types.Type) (lo, hi *big.Int, ok bool) {
	t = types.Unalias(t)
	if isOpaqueSpecial(t) {
		return nil, nil, false
	}
	b, isB := t.Underlying().(*types.Basic)
	if !isB || b.Info()&types.IsInteger == 0 {
		return nil, nil, false
	}
	bits, signed := intBits(b)
	if signed {
		return new(big.Int).Neg(pow2(bits - 1)), new(big.Int).Sub(pow2(bits-1), big.NewInt(1)), true
	}
	return big.NewInt(0), new(big.Int).Sub(pow2(bits), big.NewInt(1)), true
}

func intBits(b *types.Basic) (bits int, signed bool) {
	switch b.Kind() {
	case types.Int8:
		return 8, true
	case types.Int16:
		return 16, true
	case types.Int32:
		return 32, true
	case types.Int64, types.Int, types.UntypedInt, types.UntypedRune:
		return 64, true
	case types.Uint8:
		return 8, false
	case types.Uint16:
		return 16, false
	case types.Uint32:
		return 32, false
	case types.Uint64, types.Uint, types.Uintptr:
		return 64, false
	}
	return 64, true
}

// rangeFact returns the type invariant of a value of type t held in term x
// (integers in range, slices well formed, ...), or "true".
func (vc *VC) rangeFact(x Term, t types.Type, depth int) Term {
	t = types.Unalias(t)
	if isOpaqueSpecial(t) {
		return "true"
	}
	switch u := t.Underlying().(type) {
	case *types.Basic:
		if lo, hi, ok := intRange(t); ok {
			if _, isLit := litVal(x); isLit {
				return "true"
			}
			return and(cmp("<=", intLit(lo), x), cmp("<=", x, intLit(hi)))
		}
		if u.Info()&types.IsString != 0 {
			return "(>= (str-len " + x + ") 0)"
		}
	case *types.Slice:
		return "(wfslice " + x + ")"
	case *types.Pointer, *types.Map:
		return cmp(">=", x, "0")
	case *types.Struct:
		if depth > 2 {
			return "true"
		}
		name := vc.structSort(t, u)
		var fs []Term
		for i := 0; i < u.NumFields(); i++ {
			fs = append(fs, vc.rangeFact(fmt.Sprintf("(%s %s)", vc.accessor(name, u, i), x), u.Field(i).Type(), depth+1))
		}
		return and(fs...)
	}
	return "true"
}
