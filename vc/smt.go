package vc

import (
	"fmt"
	"math/big"
	"regexp"
	"strings"
)

type Term = string

// Script accumulates declarations and assertions for one function under
// verification. Obligations reference a prefix of asserts.
type Script struct {
	decls    []string
	declared map[string]bool
	asserts  []string
	nfresh   int
}

func NewScript() *Script {
	s := &Script{declared: map[string]bool{}}
	return s
}

const preamble = `(set-option :produce-models true)
(set-logic ALL)
(declare-datatypes ((Slice 0)) (((mk-slice (sl-base Int) (sl-off Int) (sl-len Int) (sl-cap Int)))))
(declare-datatypes ((Iface 0)) (((mk-iface (if-tag Int) (if-val Int)))))
(declare-sort Str 0)
(declare-fun str-len (Str) Int)
(declare-fun str-at (Str Int) Int)
(declare-fun str-sub (Str Int Int) Str)
(declare-fun str-cat (Str Str) Str)
(declare-fun str-lit (Int) Str)
(declare-fun str-of-bytes ((Array Int Int) Int Int) Str)
(define-fun tdiv ((a Int) (b Int)) Int (ite (>= a 0) (div a b) (- (div (- a) b))))
(define-fun tmod ((a Int) (b Int)) Int (- a (* b (ite (>= a 0) (div a b) (- (div (- a) b))))))
(define-fun wfslice ((s Slice)) Bool (and (>= (sl-off s) 0) (>= (sl-len s) 0) (>= (sl-cap s) (sl-len s)) (>= (sl-base s) 0) (=> (= (sl-base s) 0) (and (= (sl-len s) 0) (= (sl-cap s) 0) (= (sl-off s) 0)))))
(define-fun be16 ((a (Array Int Int)) (o Int)) Int (+ (* 256 (select a o)) (select a (+ o 1))))
(define-fun be32 ((a (Array Int Int)) (o Int)) Int (+ (* 16777216 (select a o)) (* 65536 (select a (+ o 1))) (* 256 (select a (+ o 2))) (select a (+ o 3))))
(define-fun be64 ((a (Array Int Int)) (o Int)) Int (+ (* 72057594037927936 (select a o)) (* 281474976710656 (select a (+ o 1))) (* 1099511627776 (select a (+ o 2))) (* 4294967296 (select a (+ o 3))) (* 16777216 (select a (+ o 4))) (* 65536 (select a (+ o 5))) (* 256 (select a (+ o 6))) (select a (+ o 7))))
(define-fun le64 ((a (Array Int Int)) (o Int)) Int (+ (select a o) (* 256 (select a (+ o 1))) (* 65536 (select a (+ o 2))) (* 16777216 (select a (+ o 3))) (* 4294967296 (select a (+ o 4))) (* 1099511627776 (select a (+ o 5))) (* 281474976710656 (select a (+ o 6))) (* 72057594037927936 (select a (+ o 7)))))
(define-fun le32 ((a (Array Int Int)) (o Int)) Int (+ (select a o) (* 256 (select a (+ o 1))) (* 65536 (select a (+ o 2))) (* 16777216 (select a (+ o 3)))))
(define-fun le16 ((a (Array Int Int)) (o Int)) Int (+ (select a o) (* 256 (select a (+ o 1)))))
(define-fun isbyte ((x Int)) Bool (and (<= 0 x) (<= x 255)))
(declare-fun uf-and (Int Int) Int)
(declare-fun uf-or (Int Int) Int)
(declare-fun uf-xor (Int Int) Int)
(declare-fun uf-shl (Int Int) Int)
(declare-fun uf-shr (Int Int) Int)
(declare-fun box-str (Str) Int)
(declare-fun unbox-str (Int) Str)
`

func (s *Script) Fresh(prefix string) string {
	s.nfresh++
	return fmt.Sprintf("%s!%d", prefix, s.nfresh)
}

func (s *Script) Declare(name, sort string) {
	if s.declared[name] {
		return
	}
	s.declared[name] = true
	s.decls = append(s.decls, fmt.Sprintf("(declare-fun %s () %s)", q(name), sort))
}

func (s *Script) DeclareRaw(key, line string) {
	if s.declared[key] {
		return
	}
	s.declared[key] = true
	s.decls = append(s.decls, line)
}

func (s *Script) FreshConst(prefix, sort string) Term {
	n := s.Fresh(prefix)
	s.Declare(n, sort)
	return q(n)
}

func (s *Script) Assert(t Term) {
	if t == "true" {
		return
	}
	s.asserts = append(s.asserts, "(assert "+t+")")
}

func (s *Script) Mark() int { return len(s.asserts) }

// Define introduces a named constant equal to t and returns the name.
func (s *Script) Define(prefix, sort string, t Term) Term {
	if isAtom(t) {
		return t
	}
	c := s.FreshConst(prefix, sort)
	s.Assert("(= " + c + " " + t + ")")
	return c
}

var reSimple = regexp.MustCompile(`^[A-Za-z_][A-Za-z0-9_.$@!-]*$`)

// q quotes an SMT symbol if needed.
func q(name string) string {
	if reSimple.MatchString(name) {
		return name
	}
	if strings.HasPrefix(name, "|") {
		return name
	}
	return "|" + strings.ReplaceAll(name, "|", "_") + "|"
}

func isAtom(t Term) bool {
	return !strings.HasPrefix(t, "(") || isIntLit(t)
}

func isIntLit(t Term) bool {
	if t == "" {
		return false
	}
	if strings.HasPrefix(t, "(- ") && strings.HasSuffix(t, ")") {
		t = t[3 : len(t)-1]
	}
	for _, c := range t {
		if c < '0' || c > '9' {
			return false
		}
	}
	return true
}

func litVal(t Term) (*big.Int, bool) {
	if !isIntLit(t) {
		return nil, false
	}
	neg := false
	if strings.HasPrefix(t, "(- ") {
		neg = true
		t = t[3 : len(t)-1]
	}
	v, ok := new(big.Int).SetString(t, 10)
	if !ok {
		return nil, false
	}
	if neg {
		v.Neg(v)
	}
	return v, true
}

func intLit(v *big.Int) Term {
	if v.Sign() < 0 {
		return "(- " + new(big.Int).Neg(v).String() + ")"
	}
	return v.String()
}

func intLit64(v int64) Term { return intLit(big.NewInt(v)) }

func pow2(n int) *big.Int { return new(big.Int).Lsh(big.NewInt(1), uint(n)) }

// --- small constructors with constant folding ---

func and(ts ...Term) Term {
	var out []Term
	for _, t := range ts {
		if t == "true" || t == "" {
			continue
		}
		if t == "false" {
			return "false"
		}
		out = append(out, t)
	}
	switch len(out) {
	case 0:
		return "true"
	case 1:
		return out[0]
	}
	return "(and " + strings.Join(out, " ") + ")"
}

func or(ts ...Term) Term {
	var out []Term
	for _, t := range ts {
		if t == "false" || t == "" {
			continue
		}
		if t == "true" {
			return "true"
		}
		out = append(out, t)
	}
	switch len(out) {
	case 0:
		return "false"
	case 1:
		return out[0]
	}
	return "(or " + strings.Join(out, " ") + ")"
}

func not(t Term) Term {
	switch t {
	case "true":
		return "false"
	case "false":
		return "true"
	}
	if strings.HasPrefix(t, "(not ") {
		return t[5 : len(t)-1]
	}
	return "(not " + t + ")"
}

func implies(a, b Term) Term {
	if a == "true" {
		return b
	}
	if a == "false" || b == "true" {
		return "true"
	}
	return "(=> " + a + " " + b + ")"
}

func ite(c, a, b Term) Term {
	if c == "true" {
		return a
	}
	if c == "false" {
		return b
	}
	if a == b {
		return a
	}
	return "(ite " + c + " " + a + " " + b + ")"
}

func eq(a, b Term) Term {
	if a == b {
		return "true"
	}
	if va, ok := litVal(a); ok {
		if vb, ok := litVal(b); ok {
			if va.Cmp(vb) == 0 {
				return "true"
			}
			return "false"
		}
	}
	return "(= " + a + " " + b + ")"
}

func add(a, b Term) Term {
	if va, ok := litVal(a); ok {
		if vb, ok := litVal(b); ok {
			return intLit(new(big.Int).Add(va, vb))
		}
		if va.Sign() == 0 {
			return b
		}
	}
	if vb, ok := litVal(b); ok && vb.Sign() == 0 {
		return a
	}
	return "(+ " + a + " " + b + ")"
}

func sub(a, b Term) Term {
	if va, ok := litVal(a); ok {
		if vb, ok := litVal(b); ok {
			return intLit(new(big.Int).Sub(va, vb))
		}
	}
	if vb, ok := litVal(b); ok && vb.Sign() == 0 {
		return a
	}
	if a == b {
		return "0"
	}
	return "(- " + a + " " + b + ")"
}

func mul(a, b Term) Term {
	if va, ok := litVal(a); ok {
		if vb, ok := litVal(b); ok {
			return intLit(new(big.Int).Mul(va, vb))
		}
		if va.Cmp(big.NewInt(1)) == 0 {
			return b
		}
	}
	if vb, ok := litVal(b); ok && vb.Cmp(big.NewInt(1)) == 0 {
		return a
	}
	return "(* " + a + " " + b + ")"
}

func cmp(op string, a, b Term) Term {
	if va, ok := litVal(a); ok {
		if vb, ok := litVal(b); ok {
			c := va.Cmp(vb)
			var r bool
			switch op {
			case "<":
				r = c < 0
			case "<=":
				r = c <= 0
			case ">":
				r = c > 0
			case ">=":
				r = c >= 0
			}
			if r {
				return "true"
			}
			return "false"
		}
	}
	return "(" + op + " " + a + " " + b + ")"
}

func modT(a Term, m *big.Int) Term {
	if va, ok := litVal(a); ok {
		return intLit(new(big.Int).Mod(va, m))
	}
	return "(mod " + a + " " + m.String() + ")"
}

func sel(arr, idx Term) Term { return "(select " + arr + " " + idx + ")" }
func sto(arr, idx, v Term) Term {
	return "(store " + arr + " " + idx + " " + v + ")"
}

func mangle(s string) string {
	var sb strings.Builder
	for _, c := range s {
		switch {
		case c >= 'a' && c <= 'z', c >= 'A' && c <= 'Z', c >= '0' && c <= '9', c == '_':
			sb.WriteRune(c)
		case c == '.' || c == '/':
			sb.WriteRune('.')
		case c == '*':
			sb.WriteString("P")
		case c == '[' || c == ']':
			sb.WriteString("$")
		default:
			sb.WriteRune('_')
		}
	}
	return sb.String()
}
