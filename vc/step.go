package vc

import (
	"fmt"
	"go/token"
	"go/types"
	"math/big"
	"strings"

	"golang.org/x/tools/go/ssa"
)

func (fr *Frame) here() Term { return fr.reach[fr.curB] }

func (fr *Frame) assume(c Term) {
	fr.vc.S.Assert(implies(fr.here(), c))
}

func (fr *Frame) check(kind string) bool {
	return fr.c != nil && fr.c.Checks[kind]
}

// safety emits a no-panic obligation of the given class, then assumes it.
func (fr *Frame) safety(kind string, in ssa.Instruction, cond Term) {
	vc := fr.vc
	if cond == "true" {
		return
	}
	if fr.check(kind) {
		key := kind + "@" + FuncName(fr.fn)
		n := vc.callCount[key]
		vc.callCount[key] = n + 1
		pos := vc.P.SSA.Fset.Position(in.Pos())
		anchor := fmt.Sprintf("#%d", n)
		if fr.inlined {
			anchor = FuncName(fr.fn) + anchor
		}
		vc.addObl(&Obligation{Kind: kind, Anchor: anchor, Props: fr.c.Props, Desc: fmt.Sprintf("%s at %s:%d", kind, shortFile(pos.Filename), pos.Line), File: pos.Filename, Line: pos.Line,
			Goals: []Goal{{Reach: fr.here(), Cond: cond, Where: fmt.Sprintf("%s:%d", shortFile(pos.Filename), pos.Line)}}, Mark: vc.S.Mark()})
	}
	fr.assume(cond)
}

func shortFile(f string) string {
	if i := strings.Index(f, "/internal/"); i >= 0 {
		return f[i+10:]
	}
	return f
}

func (fr *Frame) step(in ssa.Instruction) {
	vc := fr.vc
	fr.noteLeaks(in)
	switch x := in.(type) {
	case *ssa.DebugRef:
	case *ssa.Alloc:
		v := fr.alloc(x.Type().(*types.Pointer).Elem(), x.Comment)
		fr.trackAlloc(x, v)
		fr.set(x, v)
	case *ssa.FieldAddr:
		base := fr.val(x.X)
		if base.P == nil {
			fr.safety("nil", x, not(eq(vc.term(base), "0")))
		}
		p := vc.fieldPtr(base, x.Field)
		if p == nil {
			vc.drop("fieldaddr")
			fr.set(x, vc.fresh("faddr", x.Type()))
			return
		}
		fr.set(x, &Val{P: p, Typ: x.Type()})
	case *ssa.Field:
		sv := fr.val(x.X)
		stT, st := structOf(x.X.Type())
		name := vc.structSort(stT, st)
		fr.set(x, fr.defineVal(x, fmt.Sprintf("(%s %s)", vc.accessor(name, st, x.Field), vc.term(sv))))
	case *ssa.IndexAddr:
		fr.indexAddr(x)
	case *ssa.Index:
		av := fr.val(x.X)
		iv := fr.val(x.Index)
		switch t := x.X.Type().Underlying().(type) {
		case *types.Array:
			fr.safety("bounds", x, and(cmp("<=", "0", vc.term(iv)), cmp("<", vc.term(iv), intLit64(t.Len()))))
			r := fr.defineVal(x, sel(vc.term(av), vc.term(iv)))
			fr.assume(vc.rangeFact(r.T, x.Type(), 0))
			fr.set(x, r)
		default: // string index
			s := vc.term(av)
			fr.safety("bounds", x, and(cmp("<=", "0", vc.term(iv)), cmp("<", vc.term(iv), "(str-len "+s+")")))
			r := fr.defineVal(x, "(str-at "+s+" "+vc.term(iv)+")")
			fr.assume(vc.rangeFact(r.T, x.Type(), 0))
			fr.set(x, r)
		}
	case *ssa.UnOp:
		fr.unop(x)
	case *ssa.BinOp:
		fr.set(x, fr.binop(x))
	case *ssa.Store:
		addr := fr.val(x.Addr)
		p := vc.ptrOf(addr)
		v := fr.val(x.Val)
		if p == nil {
			vc.drop("store-through-unknown-pointer")
			fr.cur = fr.cur.Havoc(nil, "st")
			return
		}
		if addr.P == nil {
			fr.safety("nil", x, not(eq(vc.term(addr), "0")))
		}
		fr.locksetCheck(x, p, "write")
		vc.storePtr(p, fr.cur, vc.term(v))
	case *ssa.Phi:
	case *ssa.Convert:
		fr.set(x, fr.convert(x))
	case *ssa.ChangeType:
		v := *fr.val(x.X)
		v.Typ = x.Type()
		fr.set(x, &v)
	case *ssa.ChangeInterface:
		v := *fr.val(x.X)
		v.Typ = x.Type()
		fr.set(x, &v)
	case *ssa.MakeInterface:
		fr.set(x, fr.makeInterface(x))
	case *ssa.TypeAssert:
		fr.typeAssert(x)
	case *ssa.Extract:
		tv := fr.val(x.Tuple)
		if tv.Tup != nil && x.Index < len(tv.Tup) {
			e := *tv.Tup[x.Index]
			if e.Typ == nil {
				e.Typ = x.Type()
			}
			fr.set(x, &e)
		} else {
			fr.set(x, vc.fresh("extract", x.Type()))
		}
	case *ssa.Slice:
		fr.sliceOp(x)
	case *ssa.MakeSlice:
		fr.makeSlice(x)
	case *ssa.MakeMap:
		fr.makeMap(x)
	case *ssa.MakeChan:
		r := vc.fresh("chan", x.Type())
		fr.assume(cmp(">", r.T, "0"))
		fr.set(x, r)
	case *ssa.MakeClosure:
		var binds []*Val
		for _, b := range x.Bindings {
			binds = append(binds, fr.val(b))
		}
		fr.set(x, &Val{Typ: x.Type(), Fn: x.Fn.(*ssa.Function), Bind: binds})
	case *ssa.Lookup:
		fr.lookup(x)
	case *ssa.MapUpdate:
		fr.atMapUpdate(x)
		fr.mapUpdate(x)
	case *ssa.Range:
		fr.rangeInit(x)
	case *ssa.Next:
		fr.rangeNext(x)
	case *ssa.Call:
		r := fr.call(x)
		if r == nil {
			r = vc.fresh("callres", x.Type())
		}
		fr.set(x, r)
	case *ssa.Go:
		fr.goStmt(x)
	case *ssa.Defer:
		fr.defers = append(fr.defers, x)
	case *ssa.RunDefers:
		for i := len(fr.defers) - 1; i >= 0; i-- {
			d := fr.defers[i]
			// only defers that dominate this point are certain to run; others are over-approximated the same way
			fr.callCommon(d, d.Common())
		}
	case *ssa.Send:
		vc.drop("chan-send")
	case *ssa.Select:
		vc.drop("select")
		fr.set(x, vc.freshTuple("select", x.Type()))
	case *ssa.If:
		c := vc.term(fr.val(x.Cond))
		fr.exitEdges(fr.curB, []Term{c, not(c)})
	case *ssa.Jump:
		fr.exitEdges(fr.curB, []Term{"true"})
	case *ssa.Return:
		var vs []*Val
		for _, r := range x.Results {
			vs = append(vs, fr.val(r))
		}
		fr.rets = append(fr.rets, retInfo{block: fr.curB, reach: fr.here(), vals: vs, heap: fr.cur, mark: vc.S.Mark()})
	case *ssa.Panic:
		if fr.check("panic") {
			fr.safety("panic", x, "false")
		}
	case *ssa.SliceToArrayPointer:
		sp := vc.slice(fr.val(x.X))
		// pointer to array inside slice memory at offset: only offset 0 supported exactly
		vc.drop("slice-to-array-pointer")
		_ = sp
		fr.set(x, vc.fresh("s2ap", x.Type()))
	case *ssa.MultiConvert:
		fr.set(x, vc.fresh("mconv", x.Type()))
	default:
		vc.drop(fmt.Sprintf("%T", in))
		if v, ok := in.(ssa.Value); ok {
			fr.set(v, vc.fresh("unk", v.Type()))
		}
	}
}

func (vc *VC) freshTuple(prefix string, t types.Type) *Val {
	tup, ok := t.(*types.Tuple)
	if !ok {
		return vc.fresh(prefix, t)
	}
	v := &Val{Typ: t}
	for i := 0; i < tup.Len(); i++ {
		v.Tup = append(v.Tup, vc.fresh(fmt.Sprintf("%s.%d", prefix, i), tup.At(i).Type()))
	}
	return v
}

// alloc creates a fresh object/cell/array of type el and returns the pointer value.
func (fr *Frame) alloc(el types.Type, comment string) *Val {
	vc := fr.vc
	r := vc.S.FreshConst(fmt.Sprintf("%s.new.%s", fr.prefix, mangle(comment)), "Int")
	al := fr.cur.Get("$alloc")
	vc.S.Assert(and(cmp(">", r, "0")))
	fr.assume(not(sel(al, r)))
	for _, o := range vc.allocs {
		vc.S.Assert(not(eq(r, o)))
	}
	vc.allocs = append(vc.allocs, r)
	fr.cur.Set("$alloc", sto(al, r, "true"))
	ptrT := types.NewPointer(el)
	v := &Val{T: r, Typ: ptrT}
	// zero-initialise
	p := vc.ptrOf(v)
	if p.Obj {
		stT, st := structOf(el)
		for i := 0; i < st.NumFields(); i++ {
			fn := vc.fieldName(stT, i)
			fr.cur.Set(fn, sto(fr.cur.Get(fn), r, vc.zeroOf(st.Field(i).Type())))
		}
	} else {
		vc.slotSet(p, fr.cur, vc.zeroOf(el))
	}
	return v
}

func (fr *Frame) indexAddr(x *ssa.IndexAddr) {
	vc := fr.vc
	base := fr.val(x.X)
	iv := vc.term(fr.val(x.Index))
	switch t := x.X.Type().Underlying().(type) {
	case *types.Slice:
		sp := vc.slice(base)
		fr.safety("bounds", x, and(cmp("<=", "0", iv), cmp("<", iv, sp.Len)))
		p := &Ptr{Heap: vc.memName(t.Elem()), Ref: sp.Base, Idx: add(sp.Off, iv), SlotT: t.Elem(), Elem: t.Elem()}
		fr.set(x, &Val{P: p, Typ: x.Type()})
	case *types.Pointer:
		arr := t.Elem().Underlying().(*types.Array)
		fr.safety("bounds", x, and(cmp("<=", "0", iv), cmp("<", iv, intLit64(arr.Len()))))
		p := vc.ptrOf(base)
		if p == nil {
			vc.drop("indexaddr")
			fr.set(x, vc.fresh("iaddr", x.Type()))
			return
		}
		var np Ptr
		if strings.HasPrefix(p.Heap, "M|") && p.Idx == "" && len(p.Path) == 0 {
			np = *p
			np.Idx = iv
			np.SlotT = arr.Elem()
		} else {
			np = *p
			np.Path = append(append([]step{}, p.Path...), step{IsIdx: true, Idx: iv, ArrT: t.Elem()})
		}
		np.Elem = arr.Elem()
		fr.set(x, &Val{P: &np, Typ: x.Type()})
	default:
		vc.drop("indexaddr-other")
		fr.set(x, vc.fresh("iaddr", x.Type()))
	}
}

func (fr *Frame) unop(x *ssa.UnOp) {
	vc := fr.vc
	v := fr.val(x.X)
	switch x.Op {
	case token.MUL: // load
		p := vc.ptrOf(v)
		if p == nil {
			vc.drop("load-through-unknown-pointer")
			fr.set(x, vc.fresh("load", x.Type()))
			return
		}
		if v.P == nil {
			fr.safety("nil", x, not(eq(vc.term(v), "0")))
		}
		fr.locksetCheck(x, p, "read")
		lv := vc.loadPtr(p, fr.cur)
		r := fr.defineVal(x, lv.T)
		fr.assume(vc.rangeFact(r.T, x.Type(), 0))
		fr.loadedRefFact(r, x.Type())
		fr.entryClosedFact(r, x.Type(), p)
		if strings.HasPrefix(p.Heap, "G|") && len(p.Path) == 0 && vc.P.NonNilGlobals()[p.Heap] {
			// sentinel errors: initialised once with errors.New, never reassigned
			vc.S.Assert(not(eq("(if-tag "+r.T+")", "0")))
		}
		fr.set(x, r)
	case token.NOT:
		fr.set(x, &Val{T: not(vc.term(v)), Typ: x.Type()})
	case token.SUB:
		t := sub("0", vc.term(v))
		if lo, _, ok := intRange(x.Type()); ok && lo.Sign() < 0 {
			// signed negation is modelled exactly: the one value without a positive twin negates to itself
			// (found the hard way: -time.Duration(math.MinInt64) in a window check)
			fr.set(x, fr.defineVal(x, ite(eq(vc.term(v), intLit(lo)), intLit(lo), t)))
			return
		}
		fr.set(x, fr.defineVal(x, fr.wrap(t, x.Type())))
	case token.XOR:
		// bitwise complement
		if lo, hi, ok := intRange(x.Type()); ok {
			if lo.Sign() == 0 {
				fr.set(x, fr.defineVal(x, sub(intLit(hi), vc.term(v))))
			} else {
				fr.set(x, fr.defineVal(x, sub(sub("0", vc.term(v)), "1")))
			}
			return
		}
		fr.set(x, vc.fresh("compl", x.Type()))
	case token.ARROW:
		vc.drop("chan-recv")
		if x.CommaOk {
			fr.set(x, vc.freshTuple("recv", x.Type()))
		} else {
			fr.set(x, vc.fresh("recv", x.Type()))
		}
	default:
		vc.drop("unop-" + x.Op.String())
		fr.set(x, vc.fresh("unop", x.Type()))
	}
}

// loadedRefFact: references loaded from memory are allocated (or nil).
func (fr *Frame) loadedRefFact(r *Val, t types.Type) {
	vc := fr.vc
	switch t.Underlying().(type) {
	case *types.Pointer, *types.Map:
		if isOpaqueSpecial(t) {
			return
		}
		fr.assume(or(eq(r.T, "0"), sel(fr.cur.Get("$alloc"), r.T)))
	case *types.Slice:
		b := "(sl-base " + r.T + ")"
		fr.assume(or(eq(b, "0"), sel(fr.cur.Get("$alloc"), b)))
	}
	_ = vc
}

// entryClosedFact: the entry heap is closed under reachability. A reference loaded from a location
// that still holds its entry contents, in an object that existed on entry, also existed on entry.
func (fr *Frame) entryClosedFact(r *Val, t types.Type, p *Ptr) {
	vc := fr.vc
	if p == nil || p.Obj || p.Ref == "" || len(p.Path) > 0 || strings.HasPrefix(p.Heap, "G|") {
		return
	}
	if _, ok := vc.heapSorts[p.Heap]; !ok {
		return
	}
	if fr.cur.Get(p.Heap) != vc.root.Get(p.Heap) {
		return
	}
	ral := vc.root.Get("$alloc")
	var ref Term
	switch t.Underlying().(type) {
	case *types.Pointer, *types.Map:
		if isOpaqueSpecial(t) {
			return
		}
		ref = r.T
	case *types.Slice:
		ref = "(sl-base " + r.T + ")"
	default:
		return
	}
	fr.assume(implies(sel(ral, p.Ref), or(eq(ref, "0"), sel(ral, ref))))
}

// wrap applies Go's fixed-width semantics to a mathematical result.
func (fr *Frame) wrap(t Term, typ types.Type) Term {
	lo, hi, ok := intRange(typ)
	if !ok {
		return t
	}
	if v, isLit := litVal(t); isLit {
		if v.Cmp(lo) >= 0 && v.Cmp(hi) <= 0 {
			return t
		}
	}
	m := new(big.Int).Add(new(big.Int).Sub(hi, lo), big.NewInt(1))
	if lo.Sign() == 0 {
		return modT(t, m)
	}
	// signed
	if fr.c != nil && fr.c.Arith == "wrap" {
		return sub(modT(add(t, intLit(new(big.Int).Neg(lo))), m), intLit(new(big.Int).Neg(lo)))
	}
	// mathematical, with optional overflow obligation
	fr.vc.Assumptions["signed integer arithmetic is mathematical (no wrap-around) except where an overflow obligation is listed"] = true
	return t
}

func (fr *Frame) binop(x *ssa.BinOp) *Val {
	vc := fr.vc
	a, b := fr.val(x.X), fr.val(x.Y)
	ta, tb := vc.term(a), vc.term(b)
	xt := x.X.Type()
	sortA := vc.sortOf(xt)
	switch x.Op {
	case token.EQL, token.NEQ:
		var e Term
		switch {
		case sortA == "Iface":
			// comparing with nil constant: tag test
			if isNilConst(x.Y) {
				e = eq("(if-tag "+ta+")", "0")
			} else if isNilConst(x.X) {
				e = eq("(if-tag "+tb+")", "0")
			} else {
				e = eq(ta, tb)
			}
		case sortA == "Slice":
			if isNilConst(x.Y) {
				e = eq(vc.slice(a).Base, "0")
			} else {
				e = eq(vc.slice(b).Base, "0")
			}
		default:
			e = eq(ta, tb)
		}
		if x.Op == token.NEQ {
			e = not(e)
		}
		return &Val{T: e, Typ: x.Type()}
	case token.LSS, token.LEQ, token.GTR, token.GEQ:
		if sortA == "Str" {
			vc.drop("string-order-compare")
			return vc.fresh("strcmp", x.Type())
		}
		return &Val{T: cmp(x.Op.String(), ta, tb), Typ: x.Type()}
	}
	if sortA == "Str" && x.Op == token.ADD {
		vc.needStrCat()
		r := fr.defineVal(x, "(str-cat "+ta+" "+tb+")")
		vc.S.Assert(eq("(str-len "+r.T+")", add("(str-len "+ta+")", "(str-len "+tb+")")))
		return r
	}
	if sortA == "Real" {
		switch x.Op {
		case token.ADD:
			return fr.defineVal(x, "(+ "+ta+" "+tb+")")
		case token.SUB:
			return fr.defineVal(x, "(- "+ta+" "+tb+")")
		case token.MUL:
			return fr.defineVal(x, "(* "+ta+" "+tb+")")
		case token.QUO:
			return fr.defineVal(x, "(/ "+ta+" "+tb+")")
		}
		return vc.fresh("fop", x.Type())
	}
	if sortA == "Bool" {
		switch x.Op {
		case token.AND, token.LAND:
			return &Val{T: and(ta, tb), Typ: x.Type()}
		case token.OR, token.LOR:
			return &Val{T: or(ta, tb), Typ: x.Type()}
		}
	}
	typ := x.Type()
	lo, hi, isInt := intRange(typ)
	var t Term
	switch x.Op {
	case token.ADD:
		t = add(ta, tb)
		fr.overflow(x, t, typ)
		t = fr.wrap(t, typ)
	case token.SUB:
		t = sub(ta, tb)
		fr.overflow(x, t, typ)
		t = fr.wrap(t, typ)
	case token.MUL:
		t = mul(ta, tb)
		fr.overflow(x, t, typ)
		t = fr.wrap(t, typ)
	case token.QUO:
		fr.safety("div0", x, not(eq(tb, "0")))
		if isInt && lo.Sign() == 0 {
			t = "(div " + ta + " " + tb + ")"
		} else {
			t = "(tdiv " + ta + " " + tb + ")"
		}
	case token.REM:
		fr.safety("div0", x, not(eq(tb, "0")))
		if isInt && lo.Sign() == 0 {
			t = "(mod " + ta + " " + tb + ")"
		} else {
			t = "(tmod " + ta + " " + tb + ")"
		}
	case token.AND, token.OR, token.XOR, token.AND_NOT:
		t = fr.bitop(x.Op, ta, tb, typ)
	case token.SHL:
		if k, ok := litVal(tb); ok && k.IsInt64() && k.Int64() < 256 {
			t = fr.wrapUnsignedOrMath(mul(ta, intLit(pow2(int(k.Int64())))), typ)
		} else {
			vc.drop("shl-symbolic")
			t = "(uf-shl " + ta + " " + tb + ")"
			r := fr.defineVal(x, t)
			vc.S.Assert(vc.rangeFact(r.T, typ, 0))
			return r
		}
	case token.SHR:
		if k, ok := litVal(tb); ok && k.IsInt64() && k.Int64() < 256 {
			t = "(div " + ta + " " + intLit(pow2(int(k.Int64()))) + ")"
			if va, ok := litVal(ta); ok {
				t = intLit(new(big.Int).Rsh(va, uint(k.Int64())))
			}
		} else {
			vc.drop("shr-symbolic")
			t = "(uf-shr " + ta + " " + tb + ")"
			r := fr.defineVal(x, t)
			vc.S.Assert(vc.rangeFact(r.T, typ, 0))
			return r
		}
	default:
		vc.drop("binop-" + x.Op.String())
		return vc.fresh("binop", typ)
	}
	_ = hi
	return fr.defineVal(x, t)
}

func (fr *Frame) wrapUnsignedOrMath(t Term, typ types.Type) Term {
	lo, hi, ok := intRange(typ)
	if !ok {
		return t
	}
	m := new(big.Int).Add(new(big.Int).Sub(hi, lo), big.NewInt(1))
	if lo.Sign() == 0 {
		return modT(t, m)
	}
	return sub(modT(add(t, intLit(new(big.Int).Neg(lo))), m), intLit(new(big.Int).Neg(lo)))
}

func (fr *Frame) overflow(x *ssa.BinOp, t Term, typ types.Type) {
	if !fr.check("overflow") {
		return
	}
	lo, hi, ok := intRange(typ)
	if !ok || lo.Sign() == 0 {
		return
	}
	fr.safety("overflow", x, and(cmp("<=", intLit(lo), t), cmp("<=", t, intLit(hi))))
}

// bitop models bitwise operations: exact for constant masks, uninterpreted otherwise.
func (fr *Frame) bitop(op token.Token, ta, tb Term, typ types.Type) Term {
	vc := fr.vc
	va, aLit := litVal(ta)
	vb, bLit := litVal(tb)
	if aLit && bLit {
		r := new(big.Int)
		switch op {
		case token.AND:
			r.And(va, vb)
		case token.OR:
			r.Or(va, vb)
		case token.XOR:
			r.Xor(va, vb)
		case token.AND_NOT:
			r.AndNot(va, vb)
		}
		return intLit(r)
	}
	if aLit && !bLit && op != token.AND_NOT {
		ta, tb, va, vb, aLit, bLit = tb, ta, vb, va, bLit, aLit
	}
	if bLit && vb.Sign() >= 0 {
		// x & mask, as a sum over maximal runs of set bits
		andMask := func(x Term, mask *big.Int) Term {
			if mask.Sign() == 0 {
				return "0"
			}
			var parts []Term
			n := mask.BitLen()
			i := 0
			for i < n {
				if mask.Bit(i) == 0 {
					i++
					continue
				}
				j := i
				for j < n && mask.Bit(j) == 1 {
					j++
				}
				// bits i..j-1
				part := "(mod (div " + x + " " + pow2(i).String() + ") " + pow2(j-i).String() + ")"
				if i == 0 {
					part = "(mod " + x + " " + pow2(j).String() + ")"
				}
				parts = append(parts, mul(part, intLit(pow2(i))))
				i = j
			}
			if len(parts) == 1 {
				return parts[0]
			}
			return "(+ " + strings.Join(parts, " ") + ")"
		}
		lo, _, ok := intRange(typ)
		if ok && lo.Sign() == 0 {
			switch op {
			case token.AND:
				return andMask(ta, vb)
			case token.OR:
				return sub(add(ta, tb), andMask(ta, vb))
			case token.XOR:
				return sub(add(ta, tb), mul("2", andMask(ta, vb)))
			case token.AND_NOT:
				return sub(ta, andMask(ta, vb))
			}
		}
	}
	vc.drop("bitop-symbolic")
	name := map[token.Token]string{token.AND: "uf-and", token.OR: "uf-or", token.XOR: "uf-xor", token.AND_NOT: "uf-and"}[op]
	t := "(" + name + " " + ta + " " + tb + ")"
	if op == token.AND_NOT {
		t = sub(ta, "(uf-and "+ta+" "+tb+")")
	}
	c := vc.S.Define("bit", "Int", t)
	vc.S.Assert(vc.rangeFact(c, typ, 0))
	return c
}

func isNilConst(v ssa.Value) bool {
	c, ok := v.(*ssa.Const)
	return ok && c.Value == nil
}

func (fr *Frame) convert(x *ssa.Convert) *Val {
	vc := fr.vc
	v := fr.val(x.X)
	from, to := x.X.Type(), x.Type()
	fs, ts := vc.sortOf(from), vc.sortOf(to)
	switch {
	case fs == "Int" && ts == "Int":
		t := vc.term(v)
		lo, hi, ok := intRange(to)
		if !ok {
			return &Val{T: t, Typ: to}
		}
		flo, fhi, fok := intRange(from)
		if fok && flo.Cmp(lo) >= 0 && fhi.Cmp(hi) <= 0 {
			return &Val{T: t, Typ: to}
		}
		return fr.defineVal(x, fr.wrapUnsignedOrMath(t, to))
	case fs == "Slice" && ts == "Str":
		sp := vc.slice(v)
		mem := fr.cur.Get(vc.memName(types.Typ[types.Byte]))
		r := fr.defineVal(x, fmt.Sprintf("(str-of-bytes %s %s %s)", sel(mem, sp.Base), sp.Off, sp.Len))
		vc.S.Assert(eq("(str-len "+r.T+")", sp.Len))
		vc.needStrOfBytes()
		return r
	case fs == "Str" && ts == "Slice":
		s := vc.term(v)
		elem := to.Underlying().(*types.Slice).Elem()
		if b, ok := elem.Underlying().(*types.Basic); !ok || b.Kind() != types.Byte {
			vc.drop("string-to-runes")
			return vc.fresh("runes", to)
		}
		r := fr.alloc(types.NewArray(elem, 0), "strbytes")
		mn := vc.memName(elem)
		arr := vc.S.FreshConst("strbytes", "(Array Int Int)")
		vc.S.Assert(fmt.Sprintf("(forall ((i Int)) (! (=> (and (<= 0 i) (< i (str-len %s))) (= (select %s i) (str-at %s i))) :pattern ((select %s i))))", s, arr, s, arr))
		fr.cur.Set(mn, sto(fr.cur.Get(mn), r.T, arr))
		l := "(str-len " + s + ")"
		// round trip: string([]byte(s)) == s
		vc.needStrOfBytes()
		vc.S.Assert(eq(fmt.Sprintf("(str-of-bytes %s 0 %s)", arr, l), s))
		return &Val{Typ: to, Sl: &SliceParts{r.T, "0", l, l}}
	case fs == "Int" && ts == "Str":
		vc.drop("int-to-string")
		return vc.fresh("itos", to)
	case fs == "Int" && ts == "Real":
		return fr.defineVal(x, "(to_real "+vc.term(v)+")")
	case fs == "Real" && ts == "Int":
		// truncation toward zero
		t := vc.term(v)
		return fr.defineVal(x, fmt.Sprintf("(ite (>= %s 0.0) (to_int %s) (- (to_int (- %s))))", t, t, t))
	case fs == ts:
		c := *v
		c.Typ = to
		return &c
	}
	vc.drop("convert-" + fs + "-" + ts)
	return vc.fresh("conv", to)
}

func (vc *VC) needStrOfBytes() {
	vc.S.DeclareRaw("ax:str-of-bytes", "(assert (forall ((a (Array Int Int)) (o Int) (n Int) (i Int)) (! (=> (and (<= 0 i) (< i n)) (= (str-at (str-of-bytes a o n) i) (select a (+ o i)))) :pattern ((str-at (str-of-bytes a o n) i)))))")
}

func (vc *VC) typeTag(t types.Type) Term {
	key := types.TypeString(t, nil)
	id, ok := vc.typeTags()[key]
	if !ok {
		id = len(vc.typeTags()) + 1
		vc.typeTags()[key] = id
	}
	return fmt.Sprint(id)
}

var globalTypeTags = map[string]int{}

func (vc *VC) typeTags() map[string]int { return globalTypeTags }

func (fr *Frame) makeInterface(x *ssa.MakeInterface) *Val {
	vc := fr.vc
	v := fr.val(x.X)
	tag := vc.typeTag(x.X.Type())
	s := vc.sortOf(x.X.Type())
	var payload Term
	switch s {
	case "Int":
		payload = vc.term(v)
	case "Bool":
		payload = ite(vc.term(v), "1", "0")
	default:
		box := "box_" + mangle(s)
		unbox := "unbox_" + mangle(s)
		vc.S.DeclareRaw("fn:"+box, fmt.Sprintf("(declare-fun %s (%s) Int)", box, s))
		vc.S.DeclareRaw("fn:"+unbox, fmt.Sprintf("(declare-fun %s (Int) %s)", unbox, s))
		t := vc.term(v)
		payload = "(" + box + " " + t + ")"
		vc.S.Assert(eq("("+unbox+" "+payload+")", t))
	}
	return fr.defineVal(x, "(mk-iface "+tag+" "+payload+")")
}

func (fr *Frame) typeAssert(x *ssa.TypeAssert) {
	vc := fr.vc
	v := vc.term(fr.val(x.X))
	at := x.AssertedType
	var ok Term
	var res *Val
	if _, isIface := at.Underlying().(*types.Interface); isIface {
		// interface-to-interface: succeeds iff non-nil and implements (unknown): fresh bool
		okc := vc.S.FreshConst("implements", "Bool")
		ok = and(not(eq("(if-tag "+v+")", "0")), okc)
		res = &Val{T: v, Typ: at}
	} else {
		ok = eq("(if-tag "+v+")", vc.typeTag(at))
		s := vc.sortOf(at)
		var t Term
		switch s {
		case "Int":
			t = "(if-val " + v + ")"
		case "Bool":
			t = eq("(if-val "+v+")", "1")
		default:
			unbox := "unbox_" + mangle(s)
			box := "box_" + mangle(s)
			vc.S.DeclareRaw("fn:"+box, fmt.Sprintf("(declare-fun %s (%s) Int)", box, s))
			vc.S.DeclareRaw("fn:"+unbox, fmt.Sprintf("(declare-fun %s (Int) %s)", unbox, s))
			t = "(" + unbox + " (if-val " + v + "))"
		}
		res = &Val{T: t, Typ: at}
	}
	if x.CommaOk {
		okv := vc.S.Define("taok", "Bool", ok)
		val := &Val{T: ite(okv, res.T, vc.zeroOf(at)), Typ: at}
		fr.set(x, &Val{Typ: x.Type(), Tup: []*Val{val, {T: okv, Typ: types.Typ[types.Bool]}}})
		return
	}
	fr.safety("panic", x, ok)
	fr.set(x, fr.defineVal(x, res.T))
}

func (fr *Frame) sliceOp(x *ssa.Slice) {
	vc := fr.vc
	base := fr.val(x.X)
	var lo, hi, max Term
	if x.Low != nil {
		lo = vc.term(fr.val(x.Low))
	} else {
		lo = "0"
	}
	switch t := x.X.Type().Underlying().(type) {
	case *types.Slice:
		sp := vc.slice(base)
		if x.High != nil {
			hi = vc.term(fr.val(x.High))
		} else {
			hi = sp.Len
		}
		if x.Max != nil {
			max = vc.term(fr.val(x.Max))
		} else {
			max = sp.Cap
		}
		fr.safety("bounds", x, and(cmp("<=", "0", lo), cmp("<=", lo, hi), cmp("<=", hi, max), cmp("<=", max, sp.Cap)))
		r := &Val{Typ: x.Type(), Sl: &SliceParts{sp.Base, add(sp.Off, lo), sub(hi, lo), sub(max, lo)}, View: base.View}
		fr.set(x, r)
	case *types.Basic: // string
		s := vc.term(base)
		if x.High != nil {
			hi = vc.term(fr.val(x.High))
		} else {
			hi = "(str-len " + s + ")"
		}
		fr.safety("bounds", x, and(cmp("<=", "0", lo), cmp("<=", lo, hi), cmp("<=", hi, "(str-len "+s+")")))
		vc.needStrSub()
		r := fr.defineVal(x, fmt.Sprintf("(str-sub %s %s %s)", s, lo, hi))
		fr.set(x, r)
	case *types.Pointer: // pointer to array
		arr := t.Elem().Underlying().(*types.Array)
		n := intLit64(arr.Len())
		if x.High != nil {
			hi = vc.term(fr.val(x.High))
		} else {
			hi = n
		}
		fr.safety("bounds", x, and(cmp("<=", "0", lo), cmp("<=", lo, hi), cmp("<=", hi, n)))
		p := vc.ptrOf(base)
		if p != nil && strings.HasPrefix(p.Heap, "M|") && p.Idx == "" && len(p.Path) == 0 {
			fr.set(x, &Val{Typ: x.Type(), Sl: &SliceParts{p.Ref, lo, sub(hi, lo), sub(n, lo)}})
			return
		}
		if p == nil {
			vc.drop("slice-of-unknown-array")
			fr.set(x, vc.fresh("slice", x.Type()))
			return
		}
		// view of an array stored in a struct field / cell: copy in
		cur := vc.loadPtr(p, fr.cur)
		tmp := fr.alloc(t.Elem(), "view")
		mn := vc.memName(arr.Elem())
		fr.cur.Set(mn, sto(fr.cur.Get(mn), tmp.T, cur.T))
		fr.set(x, &Val{Typ: x.Type(), Sl: &SliceParts{tmp.T, lo, sub(hi, lo), sub(n, lo)}, View: p})
	default:
		vc.drop("slice-other")
		fr.set(x, vc.fresh("slice", x.Type()))
	}
}

func (vc *VC) needStrSub() {
	vc.S.DeclareRaw("ax:str-sub-len", "(assert (forall ((s Str) (a Int) (b Int)) (! (=> (and (<= 0 a) (<= a b) (<= b (str-len s))) (= (str-len (str-sub s a b)) (- b a))) :pattern ((str-sub s a b)))))")
	vc.S.DeclareRaw("ax:str-sub-at", "(assert (forall ((s Str) (a Int) (b Int) (i Int)) (! (=> (and (<= 0 i) (< i (- b a))) (= (str-at (str-sub s a b) i) (str-at s (+ a i)))) :pattern ((str-at (str-sub s a b) i)))))")
	vc.S.DeclareRaw("ax:str-sub-id", "(assert (forall ((s Str)) (! (= (str-sub s 0 (str-len s)) s) :pattern ((str-sub s 0 (str-len s))))))")
}

// writeBackView copies a view's memory back into the array slot it was taken from.
func (fr *Frame) writeBackView(v *Val) {
	if v == nil || v.View == nil {
		return
	}
	vc := fr.vc
	sp := vc.slice(v)
	arrT := v.View.Elem.Underlying().(*types.Array)
	mn := vc.memName(arrT.Elem())
	vc.storePtr(v.View, fr.cur, sel(fr.cur.Get(mn), sp.Base))
}

func (fr *Frame) makeSlice(x *ssa.MakeSlice) {
	vc := fr.vc
	elem := x.Type().Underlying().(*types.Slice).Elem()
	l := vc.term(fr.val(x.Len))
	c := vc.term(fr.val(x.Cap))
	fr.safety("alloc", x, and(cmp("<=", "0", l), cmp("<=", l, c)))
	if fr.c != nil && fr.c.AllocLimit != nil {
		// "memory in proportion to the input": every allocation is bounded by the declared limit
		env := fr.specEnvHere()
		lim := vc.term(env.eval(fr.c.AllocLimit.E))
		fr.safetyAlways("alloc-size", x, cmp("<=", c, lim), "allocation bounded by "+fr.c.AllocLimit.Src)
	}
	r := fr.alloc(types.NewArray(elem, 0), "make")
	fr.set(x, &Val{Typ: x.Type(), Sl: &SliceParts{r.T, "0", l, c}})
}

// safetyAlways emits an obligation regardless of the check classes selected.
func (fr *Frame) safetyAlways(kind string, in ssa.Instruction, cond Term, desc string) {
	vc := fr.vc
	key := kind + "@" + FuncName(fr.fn)
	n := vc.callCount[key]
	vc.callCount[key] = n + 1
	pos := vc.P.SSA.Fset.Position(in.Pos())
	anchor := fmt.Sprintf("#%d", n)
	if fr.inlined {
		anchor = FuncName(fr.fn) + anchor
	}
	vc.addObl(&Obligation{Kind: kind, Anchor: anchor, Props: fr.c.Props, Desc: fmt.Sprintf("%s at %s:%d", desc, shortFile(pos.Filename), pos.Line), File: pos.Filename, Line: pos.Line,
		Goals: []Goal{{Reach: fr.here(), Cond: cond, Where: fmt.Sprintf("%s:%d", shortFile(pos.Filename), pos.Line)}}, Mark: vc.S.Mark()})
	fr.assume(cond)
}

// ---------- maps ----------

func (vc *VC) mapNames(mt *types.Map) (dom, val string) {
	ks, vs := vc.sortOf(mt.Key()), vc.sortOf(mt.Elem())
	dom = vc.regHeap("MD|"+ks, "(Array Int (Array "+ks+" Bool))")
	val = vc.regHeap("MV|"+ks+"|"+vs, "(Array Int (Array "+ks+" "+vs+"))")
	vc.regHeap("ML", "(Array Int Int)")
	return
}

func (fr *Frame) makeMap(x *ssa.MakeMap) {
	vc := fr.vc
	mt := x.Type().Underlying().(*types.Map)
	d, _ := vc.mapNames(mt)
	r := vc.S.FreshConst(fr.prefix+".newmap", "Int")
	al := fr.cur.Get("$alloc")
	vc.S.Assert(cmp(">", r, "0"))
	fr.assume(not(sel(al, r)))
	for _, o := range vc.allocs {
		vc.S.Assert(not(eq(r, o)))
	}
	vc.allocs = append(vc.allocs, r)
	fr.cur.Set("$alloc", sto(al, r, "true"))
	ks := vc.sortOf(mt.Key())
	fr.cur.Set(d, sto(fr.cur.Get(d), r, fmt.Sprintf("((as const (Array %s Bool)) false)", ks)))
	fr.cur.Set("ML", sto(fr.cur.Get("ML"), r, "0"))
	fr.set(x, &Val{T: r, Typ: x.Type()})
}

func (fr *Frame) lookup(x *ssa.Lookup) {
	vc := fr.vc
	mv := fr.val(x.X)
	kv := vc.term(fr.val(x.Index))
	mt, ok := x.X.Type().Underlying().(*types.Map)
	if !ok {
		// string index
		s := vc.term(mv)
		fr.safety("bounds", x, and(cmp("<=", "0", kv), cmp("<", kv, "(str-len "+s+")")))
		r := fr.defineVal(x, "(str-at "+s+" "+kv+")")
		fr.assume(vc.rangeFact(r.T, x.Type(), 0))
		fr.set(x, r)
		return
	}
	d, vn := vc.mapNames(mt)
	m := vc.term(mv)
	in := sel(sel(fr.cur.Get(d), m), kv)
	inC := vc.S.Define("mapok", "Bool", and(not(eq(m, "0")), in))
	val := ite(inC, sel(sel(fr.cur.Get(vn), m), kv), vc.zeroOf(mt.Elem()))
	valC := vc.S.Define("mapval", vc.sortOf(mt.Elem()), val)
	fr.assume(vc.rangeFact(valC, mt.Elem(), 0))
	rv := &Val{T: valC, Typ: mt.Elem()}
	fr.loadedRefFact(rv, mt.Elem())
	if x.CommaOk {
		fr.set(x, &Val{Typ: x.Type(), Tup: []*Val{rv, {T: inC, Typ: types.Typ[types.Bool]}}})
	} else {
		fr.set(x, rv)
	}
}

func (fr *Frame) mapUpdate(x *ssa.MapUpdate) {
	vc := fr.vc
	mt := x.Map.Type().Underlying().(*types.Map)
	d, vn := vc.mapNames(mt)
	m := vc.term(fr.val(x.Map))
	k := vc.term(fr.val(x.Key))
	v := vc.term(fr.val(x.Value))
	fr.safety("nil", x, not(eq(m, "0")))
	dom := fr.cur.Get(d)
	was := sel(sel(dom, m), k)
	ml := fr.cur.Get("ML")
	fr.cur.Set("ML", sto(ml, m, add(sel(ml, m), ite(was, "0", "1"))))
	fr.cur.Set(d, sto(dom, m, sto(sel(dom, m), k, "true")))
	vals := fr.cur.Get(vn)
	fr.cur.Set(vn, sto(vals, m, sto(sel(vals, m), k, v)))
}

func (fr *Frame) mapDelete(mv, kv *Val) {
	vc := fr.vc
	mt := mv.Typ.Underlying().(*types.Map)
	d, _ := vc.mapNames(mt)
	m := vc.term(mv)
	k := vc.term(kv)
	dom := fr.cur.Get(d)
	was := and(not(eq(m, "0")), sel(sel(dom, m), k))
	ml := fr.cur.Get("ML")
	fr.cur.Set("ML", sto(ml, m, sub(sel(ml, m), ite(was, "1", "0"))))
	fr.cur.Set(d, sto(dom, m, sto(sel(dom, m), k, "false")))
}

// range over maps/strings: iterator state is ghost.
type rangeState struct {
	isMap bool
	m     Term
	mt    *types.Map
}

// rangeInit: the iterator remembers the map and owns a ghost "visited" set
// (heap GV|<keysort>, indexed by a fresh iterator id), initially empty.
func (fr *Frame) rangeInit(x *ssa.Range) {
	vc := fr.vc
	v := &Val{T: vc.term(fr.val(x.X)), Typ: x.X.Type()}
	if mt, ok := x.X.Type().Underlying().(*types.Map); ok {
		ks := vc.sortOf(mt.Key())
		gv := vc.regHeap("GV|"+ks, "(Array Int (Array "+ks+" Bool))")
		id := vc.S.FreshConst(fr.prefix+".iter", "Int")
		fr.cur.Set(gv, sto(fr.cur.Get(gv), id, fmt.Sprintf("((as const (Array %s Bool)) false)", ks)))
		v.Bind = []*Val{{T: id}}
	}
	fr.set(x, v)
}

func (fr *Frame) rangeNext(x *ssa.Next) {
	vc := fr.vc
	it := fr.val(x.Iter)
	tup := x.Type().(*types.Tuple)
	okc := vc.S.FreshConst(fr.prefix+".next.ok", "Bool")
	res := &Val{Typ: x.Type(), Tup: []*Val{{T: okc, Typ: types.Typ[types.Bool]}}}
	if x.IsString {
		res.Tup = append(res.Tup, vc.fresh("ridx", tup.At(1).Type()), vc.fresh("rrune", tup.At(2).Type()))
		vc.drop("range-string")
		fr.set(x, res)
		return
	}
	mt := it.Typ.Underlying().(*types.Map)
	d, vn := vc.mapNames(mt)
	var k, v *Val
	k = vc.fresh(fr.prefix+".next.k", mt.Key())
	m := it.T
	inDom := sel(sel(fr.cur.Get(d), m), k.T)
	fr.assume(implies(okc, and(not(eq(m, "0")), inDom)))
	if len(it.Bind) == 1 {
		// each key is produced at most once; when the iteration ends every key still present was produced
		ks := vc.sortOf(mt.Key())
		gv := "GV|" + ks
		id := it.Bind[0].T
		vis := sel(fr.cur.Get(gv), id)
		fr.assume(implies(okc, not(sel(vis, k.T))))
		qk := vc.S.Fresh("k")
		fr.assume(implies(not(okc), fmt.Sprintf("(forall ((%s %s)) (! (=> (select (select %s %s) %s) (select %s %s)) :pattern ((select %s %s))))", q(qk), ks, fr.cur.Get(d), m, q(qk), vis, q(qk), vis, q(qk))))
		fr.cur.Set(gv, sto(fr.cur.Get(gv), id, ite(okc, sto(vis, k.T, "true"), vis)))
	}
	val := sel(sel(fr.cur.Get(vn), m), k.T)
	vt := mt.Elem()
	vv := &Val{T: vc.S.Define(fr.prefix+".next.v", vc.sortOf(vt), val), Typ: vt}
	fr.assume(vc.rangeFact(vv.T, vt, 0))
	fr.loadedRefFact(vv, vt)
	v = vv
	// an empty map yields no iteration
	fr.assume(implies(eq(sel(fr.cur.Get("ML"), m), "0"), not(okc)))
	res.Tup = append(res.Tup, k, v)
	fr.set(x, res)
}
