package vc

import (
	"fmt"
	"go/ast"
	"go/parser"
	"go/types"
	"os"
	"path/filepath"
	"sort"
	"strings"

	"golang.org/x/tools/go/packages"
	"golang.org/x/tools/go/ssa"
	"golang.org/x/tools/go/ssa/ssautil"
)

const ModPath = "github.com/postalsys/muti-metroo"

type Prog struct {
	RepoDir   string
	Pkgs      []*packages.Package
	SSA       *ssa.Program
	ByPath    map[string]*packages.Package
	SSAPkg    map[string]*ssa.Package
	CS        *ContractSet
	Funcs     map[string]*ssa.Function // pkgpath::Name
	Mutable   map[string]bool          // heap names (field keys) stored outside constructors
	FieldScan bool
	nonNil    map[string]bool
	LoadErrs  []string
}

// Load loads the given package patterns (relative to repo) with the verif tag,
// builds SSA for the in-repo packages, and parses contract files.
func Load(repo string, patterns []string, externDir string) (*Prog, error) {
	cfg := &packages.Config{Mode: packages.LoadAllSyntax, Dir: repo, BuildFlags: []string{"-tags=verif"}, Env: os.Environ()}
	pkgs, err := packages.Load(cfg, patterns...)
	if err != nil {
		return nil, err
	}
	p := &Prog{RepoDir: repo, Pkgs: pkgs, ByPath: map[string]*packages.Package{}, SSAPkg: map[string]*ssa.Package{}, Funcs: map[string]*ssa.Function{}, Mutable: map[string]bool{}}
	packages.Visit(pkgs, nil, func(pk *packages.Package) {
		p.ByPath[pk.PkgPath] = pk
		for _, e := range pk.Errors {
			if strings.HasPrefix(pk.PkgPath, ModPath) {
				p.LoadErrs = append(p.LoadErrs, e.Error())
			}
		}
	})
	if len(p.LoadErrs) > 0 {
		return p, fmt.Errorf("load errors: %s", strings.Join(p.LoadErrs, "; "))
	}
	prog, _ := ssautil.AllPackages(pkgs, ssa.GlobalDebug|ssa.InstantiateGenerics)
	p.SSA = prog
	for _, sp := range prog.AllPackages() {
		p.SSAPkg[sp.Pkg.Path()] = sp
		if strings.HasPrefix(sp.Pkg.Path(), ModPath) {
			sp.Build()
		}
	}
	// index functions of in-repo packages
	for path, sp := range p.SSAPkg {
		if !strings.HasPrefix(path, ModPath) {
			continue
		}
		for _, m := range sp.Members {
			switch m := m.(type) {
			case *ssa.Function:
				p.indexFunc(path, m)
			case *ssa.Type:
				for _, t := range []types.Type{m.Type(), types.NewPointer(m.Type())} {
					ms := prog.MethodSets.MethodSet(t)
					for i := 0; i < ms.Len(); i++ {
						if f := prog.MethodValue(ms.At(i)); f != nil && f.Pkg == sp && f.Synthetic == "" {
							p.indexFunc(path, f)
						}
					}
				}
			}
		}
	}
	// contracts
	p.CS = NewContractSet()
	for path, pk := range p.ByPath {
		if !strings.HasPrefix(path, ModPath) {
			continue
		}
		for _, f := range pk.GoFiles {
			if strings.HasPrefix(filepath.Base(f), "zz_verif_") {
				if err := p.CS.ParseContractFile(f, path); err != nil {
					return p, err
				}
			}
		}
	}
	if externDir != "" {
		files, _ := filepath.Glob(filepath.Join(externDir, "*.spec"))
		sort.Strings(files)
		for _, f := range files {
			if err := p.CS.ParseContractFile(f, ""); err != nil {
				return p, err
			}
		}
	}
	return p, nil
}

func (p *Prog) indexFunc(path string, f *ssa.Function) {
	name := FuncName(f)
	p.Funcs[path+"::"+name] = f
	for _, an := range f.AnonFuncs {
		p.indexAnon(path, an)
	}
}

func (p *Prog) indexAnon(path string, f *ssa.Function) {
	p.Funcs[path+"::"+FuncName(f)] = f
	for _, an := range f.AnonFuncs {
		p.indexAnon(path, an)
	}
}

// FuncName: "(*T).M", "T.M", "F", closures "F$1" / "(*T).M$1".
func FuncName(f *ssa.Function) string {
	if f.Parent() != nil {
		// closure: name is like "F$1"
		base := FuncName(f.Parent())
		n := f.Name()
		if i := strings.LastIndex(n, "$"); i >= 0 {
			return base + n[i:]
		}
		return base + "$" + n
	}
	if f.Signature.Recv() != nil {
		rt := f.Signature.Recv().Type()
		if pt, ok := rt.(*types.Pointer); ok {
			return "(*" + typeBase(pt.Elem()) + ")." + f.Name()
		}
		return typeBase(rt) + "." + f.Name()
	}
	return f.Name()
}

func typeBase(t types.Type) string {
	if n, ok := t.(*types.Named); ok {
		return n.Obj().Name()
	}
	if a, ok := t.(*types.Alias); ok {
		return a.Obj().Name()
	}
	return t.String()
}

// QualName returns pkgpath.FuncName for any function (including externs).
func QualName(f *ssa.Function) string {
	if f.Pkg != nil {
		return f.Pkg.Pkg.Path() + "." + FuncName(f)
	}
	if f.Signature.Recv() != nil {
		rt := f.Signature.Recv().Type()
		if pt, ok := rt.(*types.Pointer); ok {
			rt = pt.Elem()
			if n, ok := rt.(*types.Named); ok && n.Obj().Pkg() != nil {
				return n.Obj().Pkg().Path() + ".(*" + n.Obj().Name() + ")." + f.Name()
			}
		}
		if n, ok := rt.(*types.Named); ok && n.Obj().Pkg() != nil {
			return n.Obj().Pkg().Path() + "." + n.Obj().Name() + "." + f.Name()
		}
	}
	if f.Object() != nil && f.Object().Pkg() != nil {
		return f.Object().Pkg().Path() + "." + f.Name()
	}
	return f.String()
}

func (p *Prog) ContractFor(f *ssa.Function) *Contract {
	if f == nil {
		return nil
	}
	var path string
	if f.Pkg != nil {
		path = f.Pkg.Pkg.Path()
	} else if f.Object() != nil && f.Object().Pkg() != nil {
		path = f.Object().Pkg().Path()
	} else if f.Signature.Recv() != nil {
		rt := f.Signature.Recv().Type()
		if pt, ok := rt.(*types.Pointer); ok {
			rt = pt.Elem()
		}
		if n, ok := rt.(*types.Named); ok && n.Obj().Pkg() != nil {
			path = n.Obj().Pkg().Path()
		}
	}
	if c, ok := p.CS.ByKey[path+"::"+FuncName(f)]; ok {
		return c
	}
	// generic instantiation: try origin
	if o := f.Origin(); o != nil && o != f {
		return p.ContractFor(o)
	}
	return nil
}

// ResolveType resolves a Go type expression in the scope of package pkgPath
// (imports of any file of the package are visible).
func (p *Prog) ResolveType(pkgPath, expr string) (types.Type, error) {
	e, err := parser.ParseExpr(expr)
	if err != nil {
		return nil, fmt.Errorf("type %q: %v", expr, err)
	}
	pk := p.ByPath[pkgPath]
	var scope *types.Scope
	var tp *types.Package
	if pk != nil {
		tp = pk.Types
		scope = tp.Scope()
	}
	var walk func(e ast.Expr) (types.Type, error)
	findPkg := func(name string) *types.Package {
		seen := map[string]bool{}
		var found *types.Package
		var visit func(t *types.Package, depth int)
		visit = func(t *types.Package, depth int) {
			if t == nil || seen[t.Path()] || found != nil {
				return
			}
			seen[t.Path()] = true
			if t.Name() == name && t != tp {
				found = t
				return
			}
			if depth < 2 {
				for _, im := range t.Imports() {
					visit(im, depth+1)
				}
			}
		}
		if tp != nil {
			for _, im := range tp.Imports() {
				if im.Name() == name {
					return im
				}
			}
			visit(tp, 0)
		}
		if found == nil {
			for path, pk := range p.ByPath {
				if pk.Types != nil && pk.Types.Name() == name && (strings.HasSuffix(path, "/"+name) || path == name) {
					return pk.Types
				}
			}
		}
		return found
	}
	walk = func(e ast.Expr) (types.Type, error) {
		switch e := e.(type) {
		case *ast.Ident:
			if scope != nil {
				if o := scope.Lookup(e.Name); o != nil {
					if tn, ok := o.(*types.TypeName); ok {
						return tn.Type(), nil
					}
				}
			}
			if o := types.Universe.Lookup(e.Name); o != nil {
				if tn, ok := o.(*types.TypeName); ok {
					return tn.Type(), nil
				}
			}
			return nil, fmt.Errorf("unknown type %s in %s", e.Name, pkgPath)
		case *ast.SelectorExpr:
			id, ok := e.X.(*ast.Ident)
			if !ok {
				return nil, fmt.Errorf("bad qualified type")
			}
			ip := findPkg(id.Name)
			if ip == nil {
				return nil, fmt.Errorf("package %s not imported by %s", id.Name, pkgPath)
			}
			o := ip.Scope().Lookup(e.Sel.Name)
			if tn, ok := o.(*types.TypeName); ok {
				return tn.Type(), nil
			}
			return nil, fmt.Errorf("unknown type %s.%s", id.Name, e.Sel.Name)
		case *ast.StarExpr:
			t, err := walk(e.X)
			if err != nil {
				return nil, err
			}
			return types.NewPointer(t), nil
		case *ast.ArrayType:
			t, err := walk(e.Elt)
			if err != nil {
				return nil, err
			}
			if e.Len == nil {
				return types.NewSlice(t), nil
			}
			if bl, ok := e.Len.(*ast.BasicLit); ok {
				var n int64
				fmt.Sscan(bl.Value, &n)
				return types.NewArray(t, n), nil
			}
			return nil, fmt.Errorf("array length must be a literal")
		case *ast.MapType:
			k, err := walk(e.Key)
			if err != nil {
				return nil, err
			}
			v, err := walk(e.Value)
			if err != nil {
				return nil, err
			}
			return types.NewMap(k, v), nil
		case *ast.ParenExpr:
			return walk(e.X)
		}
		return nil, fmt.Errorf("unsupported type expression %q", expr)
	}
	return walk(e)
}

// ScanMutableFields classifies struct fields as mutable when stored to (or
// their address escapes) outside a function that freshly allocated the object.
func (p *Prog) ScanMutableFields() {
	if p.FieldScan {
		return
	}
	p.FieldScan = true
	var visit func(f *ssa.Function)
	seen := map[*ssa.Function]bool{}
	visit = func(f *ssa.Function) {
		if seen[f] || f.Blocks == nil {
			return
		}
		seen[f] = true
		for _, b := range f.Blocks {
			for _, in := range b.Instrs {
				fa, ok := in.(*ssa.FieldAddr)
				if !ok {
					continue
				}
				key := fieldKey(fa.X.Type(), fa.Field)
				fresh := rootIsFresh(fa.X)
				for _, ref := range *fa.Referrers() {
					switch r := ref.(type) {
					case *ssa.UnOp: // load
					case *ssa.Store:
						if r.Addr == fa {
							if !fresh {
								p.Mutable[key] = true
							}
						} else {
							p.Mutable[key] = true // address stored somewhere
						}
					case *ssa.FieldAddr, *ssa.IndexAddr:
						// nested: conservatively mutable if any nested store that is not fresh
						if !fresh && nestedStored(r.(ssa.Value)) {
							p.Mutable[key] = true
						}
					case *ssa.DebugRef:
					default:
						// address escapes (call argument, slice, phi, ...)
						if !fresh || isCallWrite(ref) {
							p.Mutable[key] = true
						}
					}
				}
			}
		}
		for _, an := range f.AnonFuncs {
			visit(an)
		}
	}
	for _, f := range p.Funcs {
		visit(f)
	}
}

func isCallWrite(in ssa.Instruction) bool { return true }

func nestedStored(v ssa.Value) bool {
	refs := v.Referrers()
	if refs == nil {
		return true
	}
	for _, ref := range *refs {
		switch r := ref.(type) {
		case *ssa.UnOp, *ssa.DebugRef:
		case *ssa.FieldAddr:
			if nestedStored(r) {
				return true
			}
		case *ssa.IndexAddr:
			if nestedStored(r) {
				return true
			}
		default:
			return true
		}
	}
	return false
}

func rootIsFresh(v ssa.Value) bool {
	for {
		switch x := v.(type) {
		case *ssa.Alloc:
			return true
		case *ssa.FieldAddr:
			v = x.X
		case *ssa.IndexAddr:
			v = x.X
		default:
			return false
		}
	}
}

func structOf(ptrOrStruct types.Type) (types.Type, *types.Struct) {
	t := ptrOrStruct
	if pt, ok := t.Underlying().(*types.Pointer); ok {
		t = pt.Elem()
	}
	st, _ := t.Underlying().(*types.Struct)
	return t, st
}

func fieldKey(ptrOrStruct types.Type, idx int) string {
	t, st := structOf(ptrOrStruct)
	if st == nil {
		return "F|?|" + fmt.Sprint(idx)
	}
	return "F|" + types.TypeString(t, nil) + "|" + st.Field(idx).Name()
}
