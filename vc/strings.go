package vc

import (
	"fmt"
	"go/types"

	"golang.org/x/tools/go/ssa"
)

// Models of package strings over the uninterpreted Str sort (str-len, str-at).
// Each function is characterised pointwise; no SMT string theory is used.
// These are assumed contracts of the standard library (trusted_base: "model:strings.*").

func (vc *VC) needStrLower() {
	vc.S.DeclareRaw("fn:str-lower", "(declare-fun str-lower (Str) Str)")
	vc.S.DeclareRaw("fn:lowc", "(define-fun lowc ((c Int)) Int (ite (and (<= 65 c) (<= c 90)) (+ c 32) c))")
	vc.S.DeclareRaw("ax:str-lower-len", "(assert (forall ((s Str)) (! (= (str-len (str-lower s)) (str-len s)) :pattern ((str-lower s)))))")
	vc.S.DeclareRaw("ax:str-lower-at", "(assert (forall ((s Str) (i Int)) (! (=> (and (<= 0 i) (< i (str-len s))) (= (str-at (str-lower s) i) (lowc (str-at s i)))) :pattern ((str-at (str-lower s) i)))))")
	vc.S.DeclareRaw("ax:str-lower-idem", "(assert (forall ((s Str)) (! (= (str-lower (str-lower s)) (str-lower s)) :pattern ((str-lower (str-lower s))))))")
}

func (vc *VC) needStrCat() {
	vc.S.DeclareRaw("ax:str-cat-len", "(assert (forall ((a Str) (b Str)) (! (= (str-len (str-cat a b)) (+ (str-len a) (str-len b))) :pattern ((str-cat a b)))))")
	vc.S.DeclareRaw("ax:str-cat-at", "(assert (forall ((a Str) (b Str) (i Int)) (! (=> (and (<= 0 i) (< i (+ (str-len a) (str-len b)))) (= (str-at (str-cat a b) i) (ite (< i (str-len a)) (str-at a i) (str-at b (- i (str-len a)))))) :pattern ((str-at (str-cat a b) i)))))")
}

// strSuffix: the formula "suf is a suffix of s".
func strSuffix(s, suf Term) Term {
	return fmt.Sprintf("(and (<= (str-len %s) (str-len %s)) (forall ((i Int)) (! (=> (and (<= 0 i) (< i (str-len %s))) (= (str-at %s (+ (- (str-len %s) (str-len %s)) i)) (str-at %s i))) :pattern ((str-at %s i)))))",
		suf, s, suf, s, s, suf, suf, suf)
}

func strPrefix(s, pre Term) Term {
	return fmt.Sprintf("(and (<= (str-len %s) (str-len %s)) (forall ((i Int)) (! (=> (and (<= 0 i) (< i (str-len %s))) (= (str-at %s i) (str-at %s i))) :pattern ((str-at %s i)))))",
		pre, s, pre, s, pre, pre)
}

func init() {
	reg := func(name string, f externHandler) {
		externHandlers[name] = f
		externWrites[name] = nil
	}
	reg("strings.ToLower", func(fr *Frame, in ssa.Instruction, args []*Val, resT types.Type) (*Val, bool) {
		vc := fr.vc
		vc.needStrLower()
		return &Val{T: vc.S.Define("lower", "Str", "(str-lower "+vc.term(args[0])+")"), Typ: resT}, true
	})
	reg("strings.HasSuffix", func(fr *Frame, in ssa.Instruction, args []*Val, resT types.Type) (*Val, bool) {
		vc := fr.vc
		r := vc.S.FreshConst("hasSuffix", "Bool")
		vc.S.Assert(eq(r, strSuffix(vc.term(args[0]), vc.term(args[1]))))
		return &Val{T: r, Typ: resT}, true
	})
	reg("strings.HasPrefix", func(fr *Frame, in ssa.Instruction, args []*Val, resT types.Type) (*Val, bool) {
		vc := fr.vc
		r := vc.S.FreshConst("hasPrefix", "Bool")
		vc.S.Assert(eq(r, strPrefix(vc.term(args[0]), vc.term(args[1]))))
		return &Val{T: r, Typ: resT}, true
	})
	reg("strings.Contains", func(fr *Frame, in ssa.Instruction, args []*Val, resT types.Type) (*Val, bool) {
		vc := fr.vc
		// only single-character needles are modelled exactly
		c, ok := singleCharLit(in, 1)
		if !ok {
			return nil, false
		}
		s := vc.term(args[0])
		r := vc.S.FreshConst("contains", "Bool")
		vc.S.Assert(eq(r, fmt.Sprintf("(exists ((i Int)) (and (<= 0 i) (< i (str-len %s)) (= (str-at %s i) %d)))", s, s, c)))
		return &Val{T: r, Typ: resT}, true
	})
	reg("strings.TrimPrefix", func(fr *Frame, in ssa.Instruction, args []*Val, resT types.Type) (*Val, bool) {
		vc := fr.vc
		vc.needStrSub()
		s, pre := vc.term(args[0]), vc.term(args[1])
		hp := vc.S.FreshConst("hasPrefix", "Bool")
		vc.S.Assert(eq(hp, strPrefix(s, pre)))
		r := vc.S.Define("trimPrefix", "Str", ite(hp, fmt.Sprintf("(str-sub %s (str-len %s) (str-len %s))", s, pre, s), s))
		return &Val{T: r, Typ: resT}, true
	})
	reg("strings.ContainsAny", func(fr *Frame, in ssa.Instruction, args []*Val, resT types.Type) (*Val, bool) {
		vc := fr.vc
		ci := in.(ssa.CallInstruction)
		c, ok := ci.Common().Args[1].(*ssa.Const)
		if !ok {
			return nil, false
		}
		set, ok := constString(c)
		if !ok || len(set) == 0 || len(set) > 8 {
			return nil, false
		}
		s := vc.term(args[0])
		var alts []Term
		for i := 0; i < len(set); i++ {
			alts = append(alts, fmt.Sprintf("(= (str-at %s i) %d)", s, set[i]))
		}
		r := vc.S.FreshConst("containsAny", "Bool")
		vc.S.Assert(eq(r, fmt.Sprintf("(exists ((i Int)) (and (<= 0 i) (< i (str-len %s)) %s))", s, or(alts...))))
		return &Val{T: r, Typ: resT}, true
	})
	reg("strings.Index", func(fr *Frame, in ssa.Instruction, args []*Val, resT types.Type) (*Val, bool) {
		vc := fr.vc
		c, ok := singleCharLit(in, 1)
		if !ok {
			// a constant needle of 2..8 bytes: first occurrence of the whole needle, or -1
			lit, ok2 := stringLitArg(in, 1)
			if !ok2 || len(lit) < 2 || len(lit) > 8 {
				return nil, false
			}
			s := vc.term(args[0])
			r := vc.S.FreshConst("index", "Int")
			at := func(i Term) Term {
				var cs []Term
				for j := 0; j < len(lit); j++ {
					cs = append(cs, fmt.Sprintf("(= (str-at %s (+ %s %d)) %d)", s, i, j, lit[j]))
				}
				return and(cs...)
			}
			n := len(lit)
			vc.S.Assert(fmt.Sprintf("(and (<= (- 1) %s) (<= (+ %s %d) (str-len %s)) (=> (>= %s 0) %s) (forall ((i Int)) (! (=> (and (<= 0 i) (< i (ite (>= %s 0) %s (- (str-len %s) %d)))) (not %s)) :pattern ((str-at %s i)))))",
				r, r, n, s, r, at(r), r, r, s, n-1, at("i"), s))
			return &Val{T: r, Typ: resT}, true
		}
		s := vc.term(args[0])
		r := vc.S.FreshConst("index", "Int")
		// first occurrence, or -1
		vc.S.Assert(fmt.Sprintf("(and (<= (- 1) %s) (< %s (str-len %s)) (=> (>= %s 0) (= (str-at %s %s) %d)) (forall ((i Int)) (! (=> (and (<= 0 i) (< i (ite (>= %s 0) %s (str-len %s)))) (not (= (str-at %s i) %d))) :pattern ((str-at %s i)))))",
			r, r, s, r, s, r, c, r, r, s, s, c, s))
		return &Val{T: r, Typ: resT}, true
	})
	reg("strings.LastIndex", func(fr *Frame, in ssa.Instruction, args []*Val, resT types.Type) (*Val, bool) {
		vc := fr.vc
		c, ok := singleCharLit(in, 1)
		if !ok {
			return nil, false
		}
		s := vc.term(args[0])
		r := vc.S.FreshConst("lastIndex", "Int")
		vc.S.Assert(fmt.Sprintf("(and (<= (- 1) %s) (< %s (str-len %s)) (=> (>= %s 0) (= (str-at %s %s) %d)) (forall ((i Int)) (! (=> (and (< %s i) (< i (str-len %s))) (not (= (str-at %s i) %d))) :pattern ((str-at %s i)))))",
			r, r, s, r, s, r, c, r, s, s, c, s))
		return &Val{T: r, Typ: resT}, true
	})
}

// singleCharLit: argument k of the call is a constant string of length one.
func singleCharLit(in ssa.Instruction, k int) (int, bool) {
	ci, ok := in.(ssa.CallInstruction)
	if !ok {
		return 0, false
	}
	args := ci.Common().Args
	if k >= len(args) {
		return 0, false
	}
	c, ok := args[k].(*ssa.Const)
	if !ok || c.Value == nil {
		return 0, false
	}
	s, ok := constString(c)
	if !ok || len(s) != 1 {
		return 0, false
	}
	return int(s[0]), true
}

// stringLitArg: argument k of the call is a constant string.
func stringLitArg(in ssa.Instruction, k int) (string, bool) {
	ci, ok := in.(ssa.CallInstruction)
	if !ok {
		return "", false
	}
	args := ci.Common().Args
	if k >= len(args) {
		return "", false
	}
	c, ok := args[k].(*ssa.Const)
	if !ok || c.Value == nil {
		return "", false
	}
	return constString(c)
}

func constString(c *ssa.Const) (string, bool) {
	if c.Value == nil {
		return "", false
	}
	if c.Value.Kind().String() != "String" {
		return "", false
	}
	// constant.StringVal
	s := c.Value.ExactString()
	if len(s) >= 2 && s[0] == '"' {
		var out string
		if _, err := fmt.Sscanf(s, "%q", &out); err == nil {
			return out, true
		}
	}
	return "", false
}
