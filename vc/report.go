package vc

import (
	"bytes"
	"encoding/json"
	"fmt"
	"os"
	"os/exec"
	"path/filepath"
	"regexp"
	"sort"
	"strings"
	"text/template"
	"time"

	"golang.org/x/tools/go/ssa"
)

type Run struct {
	Prop, Tier, Repo, Verif string
	Seed                    int
	Timeout                 time.Duration
	Verbose                 bool
	OnlyFunc                string
	UpdateLedger            bool
	P                       *Prog
	Funcs                   []*FuncResult
	Obls                    []*Obligation
	Static                  []*Obligation
	WallS                   float64
	Fatal                   string
	violations              []string
	engineErrors            []string
	known                   []string
	proved                  int
	claimed                 int
	solverSec               map[string]float64
	replays                 int
}

type LedgerEntry struct {
	ID      string  `json:"id"`
	Kind    string  `json:"kind"`
	Solver  string  `json:"solver"`
	Seconds float64 `json:"seconds"`
	Desc    string  `json:"desc,omitempty"`
}

type KnownFinding struct {
	Property   string `json:"property"`
	Obligation string `json:"obligation"`
	Status     string `json:"status"` // open | fixed
	What       string `json:"what"`
	Witness    string `json:"witness,omitempty"`
	Replay     string `json:"replay,omitempty"`
	Commit     string `json:"commit,omitempty"`
}

func (r *Run) ledgerPath() string { return filepath.Join(r.Verif, "ledger", r.Prop+".json") }

func (r *Run) loadLedger() []LedgerEntry {
	var l []LedgerEntry
	b, err := os.ReadFile(r.ledgerPath())
	if err != nil {
		return nil
	}
	json.Unmarshal(b, &l)
	return l
}

func (r *Run) loadKnown() []KnownFinding {
	var k []KnownFinding
	b, err := os.ReadFile(filepath.Join(r.Verif, "known_findings.json"))
	if err != nil {
		return nil
	}
	if err := json.Unmarshal(b, &k); err != nil {
		fmt.Println("WARNING: known_findings.json does not parse:", err)
	}
	return k
}

// Report prints the verdict lines and returns the exit code.
func (r *Run) Report() int {
	known := r.loadKnown()
	ledger := r.loadLedger()
	r.solverSec = map[string]float64{}
	isKnown := func(id string) *KnownFinding {
		for i := range known {
			if known[i].Property == r.Prop && known[i].Obligation == id && known[i].Status == "open" {
				return &known[i]
			}
		}
		return nil
	}
	seen := map[string]bool{}
	sort.Slice(r.Obls, func(i, j int) bool { return r.Obls[i].ID < r.Obls[j].ID })
	outDir := filepath.Join(r.Verif, "out", r.Prop)
	os.MkdirAll(outDir, 0o755)
	for _, o := range r.Obls {
		seen[o.ID] = true
		r.solverSec[strings.Split(o.Solver, "+")[0]] += o.Seconds
		switch o.Status {
		case "proved":
			r.proved++
			r.claimed++
			if r.Verbose {
				fmt.Printf("  proved   %-70s %s %.2fs\n", o.ID, o.Solver, o.Seconds)
			}
			if kf := isKnown(o.ID); kf != nil {
				fmt.Printf("NOTE: known finding %s no longer reproduces (obligation discharged)\n", o.ID)
			}
		default:
			if kf := isKnown(o.ID); kf != nil {
				fmt.Printf("KNOWN-FINDING: property=%s %s: %s\n", r.Prop, o.ID, kf.What)
				r.known = append(r.known, o.ID)
				continue
			}
			r.claimed++
			path := r.writeReplay(o, outDir)
			if o.Status == "error" {
				// every solver rejected the query text: the machinery failed, the code was not judged.
				// Reported as a broken run (exit 2), never as a violation of the property.
				fmt.Printf("  ENGINE-ERROR %s: malformed query, undecided (solver output in %s)\n", o.ID, path)
				r.engineErrors = append(r.engineErrors, o.ID)
				continue
			}
			confirmed := false
			if o.Status == "refuted" {
				confirmed = r.tryReplay(o, path)
			}
			suffix := ""
			if !confirmed {
				suffix = " no-failing-input-found"
			}
			fmt.Printf("  FAILED   %s [%s by %s] %s\n", o.ID, o.Status, o.Solver, o.Desc)
			line := fmt.Sprintf("VIOLATION property=%s replay=%s%s", r.Prop, path, suffix)
			r.violations = append(r.violations, line)
		}
	}
	// binding / spec errors: the obligations of that function cannot be generated
	for _, fr := range r.Funcs {
		if len(fr.Errors) == 0 {
			continue
		}
		id := shortPkgPath(fr.Pkg) + "." + fr.Func + ":binding"
		if isKnown(id) != nil {
			fmt.Printf("KNOWN-FINDING: property=%s %s\n", r.Prop, id)
			continue
		}
		path := filepath.Join(outDir, sanitize(id)+".replay.json")
		writeJSON(path, map[string]any{"obligation": id, "property": r.Prop, "reason": "contract no longer binds to the code (function, variable, loop or call it names is gone or changed shape)", "errors": fr.Errors})
		r.claimed++
		r.violations = append(r.violations, fmt.Sprintf("VIOLATION property=%s replay=%s no-failing-input-found", r.Prop, path))
	}
	// obligations in the ledger that are no longer generated
	if !r.UpdateLedger && r.OnlyFunc == "" {
		for _, le := range ledger {
			// only clause-anchored obligations must persist; per-site obligations (bounds, div0,
			// pre@callee#n, guards) legitimately vanish when a harmless edit removes the site
			if le.Kind != "post" && le.Kind != "census" && le.Kind != "lemma" {
				continue
			}
			if !seen[le.ID] {
				path := filepath.Join(outDir, sanitize(le.ID)+".replay.json")
				writeJSON(path, map[string]any{"obligation": le.ID, "property": r.Prop, "reason": "obligation discharged on the pinned tree is no longer generated from the current source (the guarded call, loop, clause or function it was anchored at is gone)", "ledger": le})
				fmt.Printf("  MISSING  %s (in ledger, not generated now)\n", le.ID)
				r.claimed++
				r.violations = append(r.violations, fmt.Sprintf("VIOLATION property=%s replay=%s no-failing-input-found", r.Prop, path))
			}
		}
	}
	if r.UpdateLedger {
		var l []LedgerEntry
		for _, o := range r.Obls {
			if o.Status == "proved" {
				l = append(l, LedgerEntry{ID: o.ID, Kind: o.Kind, Solver: o.Solver, Seconds: round2(o.Seconds), Desc: o.Desc})
			}
		}
		os.MkdirAll(filepath.Dir(r.ledgerPath()), 0o755)
		writeJSON(r.ledgerPath(), l)
		fmt.Printf("ledger updated: %d obligations\n", len(l))
	}
	fmt.Printf("%s %s: %d obligations, %d discharged, %d known findings, %d violations (%d functions under contract)\n", r.Prop, r.Tier, r.claimed, r.proved, len(r.known), len(r.violations), len(r.Funcs))
	for _, v := range r.violations {
		fmt.Println(v)
	}
	if len(r.violations) > 0 {
		return 1
	}
	if len(r.engineErrors) > 0 {
		fmt.Printf("ERROR: %d obligations could not be put to a solver (engine error); the property is undecided on this tree\n", len(r.engineErrors))
		return 2
	}
	if r.proved == 0 {
		fmt.Println("ERROR: no obligation was discharged (vacuous run)")
		return 2
	}
	return 0
}

func round2(f float64) float64 { return float64(int(f*100+0.5)) / 100 }

func shortPkgPath(p string) string { return strings.TrimPrefix(p, ModPath+"/internal/") }

func sanitize(id string) string {
	return strings.NewReplacer("/", "_", "*", "P", "(", "", ")", "", "$", "_", " ", "_", "@", "_at_", "#", "_", ":", "-").Replace(id)
}

func writeJSON(path string, v any) {
	b, _ := json.MarshalIndent(v, "", " ")
	os.WriteFile(path, append(b, '\n'), 0o644)
}

func (r *Run) writeReplay(o *Obligation, dir string) string {
	path := filepath.Join(dir, sanitize(o.ID)+".replay.json")
	writeJSON(path, map[string]any{
		"property": r.Prop, "obligation": o.ID, "kind": o.Kind, "clause": o.Desc, "source": fmt.Sprintf("%s:%d", shortFile(o.File), o.Line),
		"status": o.Status, "solver": o.Solver, "seconds": o.Seconds, "model": o.Model, "solver_output": truncate(o.Output, 6000), "smt_file": o.SMTPath,
	})
	return path
}

func truncate(s string, n int) string {
	if len(s) > n {
		return s[:n] + "...[truncated]"
	}
	return s
}

// ---------- replay ----------

type replayTemplate struct {
	Match    string `json:"match"`    // regexp on obligation id
	Template string `json:"template"` // file under /verif/replay
	Pkg      string `json:"pkg"`      // ./internal/xyz
}

// tryReplay renders the matching template with the model and runs it as an
// in-package test through a build overlay. The test must print REPLAY-CONFIRMED
// when the real code misbehaves as the model predicts.
func (r *Run) tryReplay(o *Obligation, replayPath string) bool {
	b, err := os.ReadFile(filepath.Join(r.Verif, "replay", "templates.json"))
	if err != nil {
		return false
	}
	var ts []replayTemplate
	if json.Unmarshal(b, &ts) != nil {
		return false
	}
	for _, t := range ts {
		re, err := regexp.Compile(t.Match)
		if err != nil || !re.MatchString(o.ID) {
			continue
		}
		src, err := os.ReadFile(filepath.Join(r.Verif, "replay", t.Template))
		if err != nil {
			continue
		}
		tmpl, err := template.New("replay").Funcs(template.FuncMap{
			"get": func(k string) string {
				if v, ok := o.Model[k]; ok {
					return v
				}
				return "0"
			},
			"getbool": func(k string) string {
				if o.Model[k] == "true" {
					return "true"
				}
				return "false"
			},
			"bytes": func(prefix string, n int) string {
				var parts []string
				for i := 0; i < n; i++ {
					v := o.Model[fmt.Sprintf("%s[%d]", prefix, i)]
					if v == "" || !isIntLit(v) {
						v = "0"
					} else if len(v) > 3 {
						v = "0" // not a byte: unconstrained by the obligation
					}
					parts = append(parts, v)
				}
				return strings.Join(parts, ", ")
			},
		}).Parse(string(src))
		if err != nil {
			continue
		}
		var buf bytes.Buffer
		if err := tmpl.Execute(&buf, map[string]any{"M": o.Model, "ID": o.ID}); err != nil {
			continue
		}
		dir := filepath.Join(r.Verif, "out", r.Prop)
		testFile := filepath.Join(dir, sanitize(o.ID)+"_replay_test.go")
		os.WriteFile(testFile, buf.Bytes(), 0o644)
		ov := filepath.Join(dir, sanitize(o.ID)+".overlay.json")
		target := filepath.Join(r.Repo, strings.TrimPrefix(t.Pkg, "./"), "zz_verif_replay_test.go")
		writeJSON(ov, map[string]any{"Replace": map[string]string{target: testFile}})
		cmd := exec.Command("go", "test", "-overlay", ov, "-vet=off", "-count=1", "-timeout", "60s", "-run", "TestZZVerifReplay", t.Pkg)
		cmd.Dir = r.Repo
		cmd.Env = append(os.Environ(), "GOFLAGS=-mod=mod")
		out, _ := cmd.CombinedOutput()
		r.replays++
		confirmed := bytes.Contains(out, []byte("REPLAY-CONFIRMED"))
		// append to the replay file
		var m map[string]any
		rb, _ := os.ReadFile(replayPath)
		json.Unmarshal(rb, &m)
		if m == nil {
			m = map[string]any{}
		}
		m["replay_test"] = testFile
		m["replay_cmd"] = strings.Join(cmd.Args, " ")
		m["replay_output"] = truncate(string(out), 4000)
		m["replay_confirmed"] = confirmed
		writeJSON(replayPath, m)
		return confirmed
	}
	return false
}

// ---------- census obligations ----------

// CensusObligations: "calls to X inside package P happen only in the listed functions".
func (p *Prog) CensusObligations(prop string) []*Obligation {
	var out []*Obligation
	for _, cs := range p.CS.Census {
		if !hasStr(cs.Props, prop) {
			continue
		}
		sp := p.SSAPkg[cs.Pkg]
		if sp == nil {
			continue
		}
		found := map[string]bool{}
		for key, f := range p.Funcs {
			if !strings.HasPrefix(key, cs.Pkg+"::") {
				continue
			}
			if f.Blocks == nil {
				continue
			}
			for _, b := range f.Blocks {
				for _, in := range b.Instrs {
					ci, ok := in.(ssa.CallInstruction)
					if !ok {
						continue
					}
					cc := ci.Common()
					var callee *ssa.Function
					switch v := cc.Value.(type) {
					case *ssa.Function:
						callee = v
					case *ssa.MakeClosure:
						callee = v.Fn.(*ssa.Function)
					}
					if calleeMatches(calleeName(cc, callee), cs.Callee) {
						found[FuncName(f)] = true
					}
				}
			}
		}
		var got []string
		for f := range found {
			got = append(got, f)
		}
		sort.Strings(got)
		o := &Obligation{ID: shortPkgPath(cs.Pkg) + ":census:" + cs.Callee, Props: cs.Props, Kind: "census", Pkg: cs.Pkg, Static: true,
			Desc: fmt.Sprintf("calls to %s occur only in {%s}; found {%s}", cs.Callee, strings.Join(cs.Funcs, ", "), strings.Join(got, ", "))}
		if strings.Join(got, ",") == strings.Join(cs.Funcs, ",") {
			o.Status = "proved"
			o.Solver = "call-graph scan"
		} else {
			o.Status = "refuted"
			o.Solver = "call-graph scan"
			o.Output = o.Desc
		}
		out = append(out, o)
	}
	return out
}

// ---------- evidence ----------

func (r *Run) WriteEvidence() error {
	dir := filepath.Join(r.Verif, "evidence")
	if d := os.Getenv("VERIF_EVIDENCE_DIR"); d != "" {
		dir = d // runs against deliberately modified trees (seeded changes, self-tests) must not overwrite the committed evidence
	}
	os.MkdirAll(dir, 0o755)
	trusted := map[string]bool{}
	assumptions := map[string]bool{}
	dropped := map[string]int{}
	var funcs []string
	for _, fr := range r.Funcs {
		funcs = append(funcs, shortPkgPath(fr.Pkg)+"."+fr.Func)
		for _, t := range fr.Trusted {
			trusted[t] = true
		}
		for _, a := range fr.Assumptions {
			assumptions[a] = true
		}
		for k, v := range fr.Dropped {
			dropped[k] += v
		}
	}
	var samples []any
	for i, o := range r.Obls {
		if i >= 5 {
			break
		}
		goal := ""
		if len(o.Goals) > 0 {
			goal = truncate(fmt.Sprintf("reach=%s ⊢ %s", o.Goals[0].Reach, o.Goals[0].Cond), 600)
		}
		samples = append(samples, map[string]any{"obligation": o.ID, "kind": o.Kind, "clause": o.Desc, "status": o.Status, "solver": o.Solver, "seconds": round2(o.Seconds), "goal": goal})
	}
	var oblList []any
	for _, o := range r.Obls {
		oblList = append(oblList, map[string]any{"id": o.ID, "status": o.Status, "solver": o.Solver, "seconds": round2(o.Seconds)})
	}
	tb := []string{"go/ssa + go/types (x/tools v0.29.0) agree with the Go compiler on the semantics of the verified functions", "SMT solvers z3 4.8.12 / z3 5.1.0 / cvc5 1.0 are sound"}
	for t := range trusted {
		tb = append(tb, t)
	}
	sort.Strings(tb[2:])
	as := []string{"lock regions, where present, are atomic; results hold for the functions under contract, composed through their contracts"}
	for a := range assumptions {
		as = append(as, a)
	}
	sort.Strings(as)
	var dr []string
	for k, v := range dropped {
		dr = append(dr, fmt.Sprintf("%s ×%d", k, v))
	}
	sort.Strings(dr)
	ss := map[string]float64{}
	for k, v := range r.solverSec {
		if k != "" {
			ss[k] = round2(v)
		}
	}
	if samples == nil {
		samples = []any{}
	}
	cov := map[string]any{
		"obligations":              r.claimed,
		"discharged":               r.proved,
		"checker_cmd":              fmt.Sprintf("./check %s --tier %s  (govc: VCs from go/ssa of %s with -tags verif; portfolio z3-new, z3, cvc5; timeout %s)", r.Prop, r.Tier, r.Repo, r.Timeout),
		"trusted_base":             tb,
		"samples":                  samples,
		"functions_under_contract": funcs,
		"obligation_results":       oblList,
		"known_findings":           r.known,
		"unmodelled_or_abstracted": dr,
		"solver_seconds":           ss,
		"replays_run":              r.replays,
		"bounded":                  boundedNotes(r),
	}
	if r.Fatal != "" {
		cov["fatal"] = r.Fatal
	}
	if len(r.engineErrors) > 0 {
		cov["engine_errors"] = r.engineErrors
	}
	ev := map[string]any{
		"property_id": r.Prop,
		"tier":        r.Tier,
		"seed":        r.Seed,
		"level":       "proof",
		"coverage":    cov,
		"assumptions": as,
		"wall_s":      round2(r.WallS),
		"violations":  len(r.violations),
	}
	writeJSON(filepath.Join(dir, r.Prop+".json"), ev)
	return nil
}

// boundedNotes lists the clauses that a contract marks as bounded instances of a claim that is not discharged
// in general (a //@ note starting with BOUNDED): they are reported apart and never described as proofs.
func boundedNotes(r *Run) []string {
	out := []string{}
	for _, fr := range r.Funcs {
		if fr.Contract == nil {
			continue
		}
		for _, n := range fr.Contract.Notes {
			if strings.HasPrefix(n, "BOUNDED") {
				out = append(out, shortPkgPath(fr.Pkg)+"."+fr.Func+": "+n)
			}
		}
	}
	sort.Strings(out)
	return out
}
