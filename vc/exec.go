package vc

import (
	"fmt"
	"go/constant"
	"go/token"
	"go/types"
	"math/big"
	"sort"
	"strings"

	"golang.org/x/tools/go/ssa"
)

// VC is the verification-condition generator state for one function under contract.
type VC struct {
	P           *Prog
	S           *Script
	Fn          *ssa.Function
	C           *Contract
	structSorts map[string]string
	strLits     map[string]int
	heapSorts   map[string]string
	written     map[string]bool
	root        *Heap
	nheap       int
	nframe      int
	Obls        []*Obligation
	Dropped     map[string]int
	Trusted     map[string]bool
	Errors      []string
	noImmutable bool
	ghostDecl   map[string]bool
	qaxSeen     map[string]bool // heap-typing axioms already asserted (see SpecEnv.quant)
	axiomsDone  bool
	allocs      []Term
	callCount   map[string]int
	Assumptions map[string]bool
	lastNow     Term
	acquired    map[string]int
	fresh_      []*freshObj
	leakAt      map[ssa.Instruction][]*freshObj
	hinted      map[string]bool
	letTypes    map[string]*Val   // a binding of each ghost let (for its type), once seen
	guardOf     map[string]string // guarded field heap name -> mutex field heap name
	guards      map[string][]string
}

type Goal struct {
	Reach Term
	Cond  Term
	Where string // source position of the program point, where known (diagnostics only)
}

type Obligation struct {
	ID     string
	Props  []string
	Kind   string
	Func   string
	Pkg    string
	Anchor string
	Desc   string
	File   string
	Line   int
	Goals  []Goal
	Mark   int         // number of asserts visible
	Vars   [][2]string // name, term to evaluate in a model
	// results
	Status  string // proved, refuted, unknown, error
	Solver  string
	Seconds float64
	Model   map[string]string
	Output  string
	SMTPath string
	Static  bool // decided without a solver (census etc.)
}

type Val struct {
	T   Term
	Typ types.Type
	P   *Ptr
	Tup []*Val
	Sl  *SliceParts
	// view: slice that is a copy-in view of an array slot
	View *Ptr
	Fn   *ssa.Function // static function value (closures)
	Bind []*Val
}

type SliceParts struct{ Base, Off, Len, Cap Term }

type step struct {
	Field int
	St    *types.Struct
	StT   types.Type
	IsIdx bool
	Idx   Term
	ArrT  types.Type
}

type Ptr struct {
	Obj   bool // pointer to a struct object: Ref is the object, no heap name
	Heap  string
	Ref   Term
	Idx   Term // second index for M| heaps, "" = whole inner array
	SlotT types.Type
	Path  []step
	Elem  types.Type
}

type Frame struct {
	vc       *VC
	fn       *ssa.Function
	c        *Contract
	id       int
	vals     map[ssa.Value]*Val
	reach    map[*ssa.BasicBlock]Term
	edges    map[[2]int]Term
	heapOut  map[*ssa.BasicBlock]*Heap
	cur      *Heap // heap at the current point
	curB     *ssa.BasicBlock
	curI     int
	entry    *Heap // heap at function entry (old)
	params   map[string]*Val
	rets     []retInfo
	inlined  bool
	depth    int
	defers   []*ssa.Defer
	loops    map[*ssa.BasicBlock]*loopInfo
	backEdge map[[2]int]bool
	subst    map[ssa.Value]*Val
	held     map[string]bool
	heldOut  map[*ssa.BasicBlock]map[string]bool
	heldIn   map[string]bool
	ghosts   map[string]*Val
	ghostOut map[*ssa.BasicBlock]map[string]*Val
	prefix   string
}

type retInfo struct {
	block *ssa.BasicBlock
	reach Term
	vals  []*Val
	heap  *Heap
	mark  int
}

type loopInfo struct {
	header  *ssa.BasicBlock
	blocks  map[*ssa.BasicBlock]bool
	ordinal int
}

func NewVC(p *Prog, fn *ssa.Function, c *Contract) *VC {
	vc := &VC{P: p, S: NewScript(), Fn: fn, C: c, structSorts: map[string]string{}, strLits: map[string]int{}, heapSorts: map[string]string{},
		written: map[string]bool{}, Dropped: map[string]int{}, Trusted: map[string]bool{}, ghostDecl: map[string]bool{}, callCount: map[string]int{}, Assumptions: map[string]bool{}, acquired: map[string]int{}, guardOf: map[string]string{}, leakAt: map[ssa.Instruction][]*freshObj{}, hinted: map[string]bool{}}
	vc.root = vc.newHeap(hRoot, nil)
	vc.regHeap("$alloc", "(Array Int Bool)")
	vc.S.DeclareRaw("TimeZero", "(define-fun TimeZero () Int (- 62135596800000000000))")
	return vc
}

func (vc *VC) errorf(format string, a ...any) {
	vc.Errors = append(vc.Errors, fmt.Sprintf(format, a...))
}

func (vc *VC) drop(what string) { vc.Dropped[what]++ }

// ---------- values ----------

func (vc *VC) fresh(prefix string, t types.Type) *Val {
	s := vc.sortOf(t)
	c := vc.S.FreshConst(prefix, s)
	vc.S.Assert(vc.rangeFact(c, t, 0))
	return &Val{T: c, Typ: t}
}

func (vc *VC) term(v *Val) Term {
	if v == nil {
		return "0"
	}
	if v.Sl != nil {
		return fmt.Sprintf("(mk-slice %s %s %s %s)", v.Sl.Base, v.Sl.Off, v.Sl.Len, v.Sl.Cap)
	}
	if v.P != nil && v.T == "" {
		if v.P.Obj {
			return v.P.Ref
		}
		// interior pointer escaping into a first-class value: opaque fresh ref
		vc.drop("interior-pointer-as-value")
		return vc.S.FreshConst("iptr", "Int")
	}
	if v.T == "" && v.Fn != nil {
		c := vc.S.FreshConst("fnval", "Int")
		vc.S.DeclareRaw("fn:closure-tag", "(declare-fun closure-tag (Int) Int)")
		vc.S.Assert(eq("(closure-tag "+c+")", fmt.Sprint(funcTag(QualName(v.Fn)))))
		v.T = c
		return c
	}
	if v.T == "" {
		return "0"
	}
	return v.T
}

func (vc *VC) slice(v *Val) *SliceParts {
	if v.Sl != nil {
		return v.Sl
	}
	t := vc.term(v)
	return &SliceParts{"(sl-base " + t + ")", "(sl-off " + t + ")", "(sl-len " + t + ")", "(sl-cap " + t + ")"}
}

func (vc *VC) constVal(c *ssa.Const) *Val {
	t := c.Type()
	if c.Value == nil {
		return &Val{T: vc.zeroOf(t), Typ: t}
	}
	switch c.Value.Kind() {
	case constant.Bool:
		if constant.BoolVal(c.Value) {
			return &Val{T: "true", Typ: t}
		}
		return &Val{T: "false", Typ: t}
	case constant.Int:
		bi, ok := new(big.Int).SetString(c.Value.ExactString(), 10)
		if !ok {
			bi = big.NewInt(0)
		}
		if vc.sortOf(t) == "Real" {
			return &Val{T: intLit(bi) + ".0", Typ: t}
		}
		return &Val{T: intLit(bi), Typ: t}
	case constant.String:
		return &Val{T: vc.strLit(constant.StringVal(c.Value)), Typ: t}
	case constant.Float:
		f, _ := constant.Float64Val(c.Value)
		r := new(big.Rat).SetFloat64(f)
		if r == nil {
			return vc.fresh("fconst", t)
		}
		num, den := r.Num(), r.Denom()
		s := fmt.Sprintf("(/ %s.0 %s.0)", new(big.Int).Abs(num).String(), den.String())
		if num.Sign() < 0 {
			s = "(- " + s + ")"
		}
		if vc.sortOf(t) == "Int" {
			return &Val{T: intLit(new(big.Int).Quo(num, den)), Typ: t}
		}
		return &Val{T: s, Typ: t}
	}
	return vc.fresh("const", t)
}

// ---------- pointers, loads and stores ----------

func (vc *VC) memName(elem types.Type) string {
	es := vc.sortOf(elem)
	return vc.regHeap("M|"+es, "(Array Int (Array Int "+es+"))")
}

func (vc *VC) cellName(t types.Type) string {
	s := vc.sortOf(t)
	return vc.regHeap("C|"+s, "(Array Int "+s+")")
}

func (vc *VC) fieldName(structT types.Type, idx int) string {
	_, st := structOf(structT)
	return vc.regHeap(fieldKey(structT, idx), "(Array Int "+vc.sortOf(st.Field(idx).Type())+")")
}

// ptrOf turns a pointer-typed value into a Ptr.
func (vc *VC) ptrOf(v *Val) *Ptr {
	if v.P != nil {
		return v.P
	}
	pt, ok := types.Unalias(v.Typ).Underlying().(*types.Pointer)
	if !ok {
		return nil
	}
	el := pt.Elem()
	if isOpaqueSpecial(el) {
		return &Ptr{Heap: vc.cellName(el), Ref: vc.term(v), SlotT: el, Elem: el}
	}
	switch u := el.Underlying().(type) {
	case *types.Struct:
		return &Ptr{Obj: true, Ref: vc.term(v), SlotT: el, Elem: el}
	case *types.Array:
		return &Ptr{Heap: vc.memName(u.Elem()), Ref: vc.term(v), SlotT: el, Elem: el}
	}
	return &Ptr{Heap: vc.cellName(el), Ref: vc.term(v), SlotT: el, Elem: el}
}

func (vc *VC) fieldPtr(base *Val, idx int) *Ptr {
	p := vc.ptrOf(base)
	if p == nil {
		return nil
	}
	stT, st := structOf(p.Elem)
	if st == nil {
		return nil
	}
	ft := st.Field(idx).Type()
	if p.Obj {
		return &Ptr{Heap: vc.fieldName(stT, idx), Ref: p.Ref, SlotT: ft, Elem: ft}
	}
	np := *p
	np.Path = append(append([]step{}, p.Path...), step{Field: idx, St: st, StT: stT})
	np.Elem = ft
	return &np
}

func (vc *VC) slotGet(p *Ptr, h *Heap) Term {
	arr := h.Get(p.Heap)
	if strings.HasPrefix(p.Heap, "G|") {
		return arr
	}
	t := sel(arr, p.Ref)
	if p.Idx != "" {
		t = sel(t, p.Idx)
	}
	return t
}

func (vc *VC) slotSet(p *Ptr, h *Heap, v Term) {
	arr := h.Get(p.Heap)
	if strings.HasPrefix(p.Heap, "G|") {
		h.Set(p.Heap, v)
		return
	}
	if p.Idx != "" {
		h.Set(p.Heap, sto(arr, p.Ref, sto(sel(arr, p.Ref), p.Idx, v)))
		return
	}
	h.Set(p.Heap, sto(arr, p.Ref, v))
}

func (vc *VC) pathGet(t Term, path []step) Term {
	for _, s := range path {
		if s.IsIdx {
			t = sel(t, s.Idx)
		} else {
			name := vc.structSort(s.StT, s.St)
			t = fmt.Sprintf("(%s %s)", vc.accessor(name, s.St, s.Field), t)
		}
	}
	return t
}

func (vc *VC) pathSet(t Term, path []step, v Term) Term {
	if len(path) == 0 {
		return v
	}
	s := path[0]
	if s.IsIdx {
		return sto(t, s.Idx, vc.pathSet(sel(t, s.Idx), path[1:], v))
	}
	name := vc.structSort(s.StT, s.St)
	var fs []string
	for i := 0; i < s.St.NumFields(); i++ {
		acc := fmt.Sprintf("(%s %s)", vc.accessor(name, s.St, i), t)
		if i == s.Field {
			fs = append(fs, vc.pathSet(acc, path[1:], v))
		} else {
			fs = append(fs, acc)
		}
	}
	return fmt.Sprintf("(mk_%s %s)", name, strings.Join(fs, " "))
}

// loadPtr reads the value a pointer refers to.
func (vc *VC) loadPtr(p *Ptr, h *Heap) *Val {
	if p.Obj {
		return &Val{T: vc.loadStruct(p.Ref, p.Elem, h), Typ: p.Elem}
	}
	t := vc.pathGet(vc.slotGet(p, h), p.Path)
	return &Val{T: t, Typ: p.Elem}
}

func (vc *VC) loadStruct(ref Term, t types.Type, h *Heap) Term {
	stT, st := structOf(t)
	name := vc.structSort(stT, st)
	if st.NumFields() == 0 {
		return fmt.Sprintf("(mk_%s 0)", name)
	}
	var fs []string
	for i := 0; i < st.NumFields(); i++ {
		fs = append(fs, sel(h.Get(vc.fieldName(stT, i)), ref))
	}
	return fmt.Sprintf("(mk_%s %s)", name, strings.Join(fs, " "))
}

func (vc *VC) storePtr(p *Ptr, h *Heap, v Term) {
	if p.Obj {
		stT, st := structOf(p.Elem)
		name := vc.structSort(stT, st)
		for i := 0; i < st.NumFields(); i++ {
			fn := vc.fieldName(stT, i)
			h.Set(fn, sto(h.Get(fn), p.Ref, fmt.Sprintf("(%s %s)", vc.accessor(name, st, i), v)))
		}
		return
	}
	if len(p.Path) == 0 {
		vc.slotSet(p, h, v)
		return
	}
	vc.slotSet(p, h, vc.pathSet(vc.slotGet(p, h), p.Path, v))
}

// ---------- obligations ----------

func (vc *VC) addObl(o *Obligation) *Obligation {
	o.Func = FuncName(vc.Fn)
	o.Pkg = vc.Fn.Pkg.Pkg.Path()
	short := strings.TrimPrefix(o.Pkg, ModPath+"/internal/")
	o.ID = fmt.Sprintf("%s.%s:%s:%s", short, o.Func, o.Kind, o.Anchor)
	for _, other := range vc.Obls {
		if other.ID == o.ID {
			// merge goals into the existing obligation (same clause, other site)
			other.Goals = append(other.Goals, o.Goals...)
			if o.Mark > other.Mark {
				other.Mark = o.Mark
			}
			return other
		}
	}
	vc.Obls = append(vc.Obls, o)
	return o
}

// ---------- frames ----------

func (vc *VC) newFrame(fn *ssa.Function, c *Contract, depth int) *Frame {
	vc.nframe++
	fr := &Frame{vc: vc, fn: fn, c: c, id: vc.nframe, vals: map[ssa.Value]*Val{}, reach: map[*ssa.BasicBlock]Term{}, edges: map[[2]int]Term{},
		heapOut: map[*ssa.BasicBlock]*Heap{}, params: map[string]*Val{}, depth: depth, loops: map[*ssa.BasicBlock]*loopInfo{}, backEdge: map[[2]int]bool{}, held: map[string]bool{}, heldOut: map[*ssa.BasicBlock]map[string]bool{}, heldIn: map[string]bool{}, ghostOut: map[*ssa.BasicBlock]map[string]*Val{}}
	fr.prefix = fmt.Sprintf("f%d", fr.id)
	return fr
}

func (fr *Frame) val(v ssa.Value) *Val {
	if fr.subst != nil {
		if s, ok := fr.subst[v]; ok {
			return s
		}
	}
	if x, ok := fr.vals[v]; ok {
		return x
	}
	vc := fr.vc
	switch c := v.(type) {
	case *ssa.Const:
		return vc.constVal(c)
	case *ssa.Global:
		t := c.Type().(*types.Pointer).Elem()
		name := vc.regHeap("G|"+c.Pkg.Pkg.Path()+"."+c.Name(), vc.sortOf(t))
		return &Val{Typ: c.Type(), P: &Ptr{Heap: name, SlotT: t, Elem: t}}
	case *ssa.Function:
		return &Val{Typ: c.Type(), Fn: c}
	case *ssa.Builtin:
		return &Val{Typ: c.Type()}
	case *ssa.FreeVar:
		x := vc.fresh("freevar."+c.Name(), c.Type())
		fr.vals[v] = x
		return x
	}
	// value not computed (e.g. defined in a block not yet visited through a cut edge)
	x := vc.fresh("undef."+v.Name(), v.Type())
	fr.vals[v] = x
	return x
}

func (fr *Frame) set(v ssa.Value, x *Val) {
	if x.Typ == nil {
		x.Typ = v.Type()
	}
	fr.vals[v] = x
}

// defineVal names the value's term to keep SMT terms small.
func (fr *Frame) defineVal(v ssa.Value, t Term) *Val {
	vc := fr.vc
	sortS := vc.sortOf(v.Type())
	name := fmt.Sprintf("%s.%s", fr.prefix, v.Name())
	if isAtom(t) {
		return &Val{T: t, Typ: v.Type()}
	}
	vc.S.nfresh++
	name = fmt.Sprintf("%s!%d", name, vc.S.nfresh)
	vc.S.Declare(name, sortS)
	vc.S.Assert(eq(q(name), t))
	return &Val{T: q(name), Typ: v.Type()}
}

func (fr *Frame) analyzeLoops() {
	fn := fr.fn
	ord := 0
	for _, b := range fn.Blocks {
		for _, s := range b.Succs {
			if s.Dominates(b) {
				fr.backEdge[[2]int{b.Index, s.Index}] = true
				li := fr.loops[s]
				if li == nil {
					li = &loopInfo{header: s, blocks: map[*ssa.BasicBlock]bool{s: true}}
					fr.loops[s] = li
				}
				// natural loop: nodes that reach b without passing through s
				stack := []*ssa.BasicBlock{b}
				for len(stack) > 0 {
					x := stack[len(stack)-1]
					stack = stack[:len(stack)-1]
					if li.blocks[x] {
						continue
					}
					li.blocks[x] = true
					stack = append(stack, x.Preds...)
				}
			}
		}
	}
	var headers []*ssa.BasicBlock
	for h := range fr.loops {
		headers = append(headers, h)
	}
	// source order: by the earliest position of any instruction in the loop; an enclosing loop precedes the loops it contains
	lpos := map[*ssa.BasicBlock]int{}
	for _, h := range headers {
		best := 1<<30 + h.Index
		for b := range fr.loops[h].blocks {
			for _, in := range b.Instrs {
				// a phi carries the position of its variable's declaration, which lies before the loop
				if _, isPhi := in.(*ssa.Phi); isPhi {
					continue
				}
				if p := in.Pos(); p != token.NoPos && int(p) < best {
					best = int(p)
				}
			}
		}
		lpos[h] = best
	}
	sort.Slice(headers, func(i, j int) bool {
		if lpos[headers[i]] != lpos[headers[j]] {
			return lpos[headers[i]] < lpos[headers[j]]
		}
		return len(fr.loops[headers[i]].blocks) > len(fr.loops[headers[j]].blocks)
	})
	for _, h := range headers {
		fr.loops[h].ordinal = ord
		ord++
	}
}

func loopPos(b *ssa.BasicBlock) int {
	// source order: position of the first instruction with a position in the header; fall back to block index
	for _, in := range b.Instrs {
		if p := in.Pos(); p != token.NoPos {
			return int(p)
		}
	}
	for _, s := range b.Succs {
		for _, in := range s.Instrs {
			if p := in.Pos(); p != token.NoPos {
				return int(p)
			}
		}
	}
	return 1<<30 + b.Index
}

func (fr *Frame) rpo() []*ssa.BasicBlock {
	seen := map[*ssa.BasicBlock]bool{}
	var post []*ssa.BasicBlock
	var dfs func(b *ssa.BasicBlock)
	dfs = func(b *ssa.BasicBlock) {
		seen[b] = true
		for _, s := range b.Succs {
			if !seen[s] && !fr.backEdge[[2]int{b.Index, s.Index}] {
				dfs(s)
			}
		}
		post = append(post, b)
	}
	dfs(fr.fn.Blocks[0])
	if fr.fn.Recover != nil && !seen[fr.fn.Recover] {
		// recover block: unreachable in our model (panics end the path)
	}
	for i, j := 0, len(post)-1; i < j; i, j = i+1, j-1 {
		post[i], post[j] = post[j], post[i]
	}
	return post
}

// run symbolically executes the function from the given entry state.
func (fr *Frame) run(entryReach Term, entryHeap *Heap) {
	vc := fr.vc
	fn := fr.fn
	fr.entry = entryHeap
	fr.analyzeLoops()
	order := fr.rpo()
	for _, b := range order {
		fr.curB = b
		fr.curI = 0
		var reach Term
		var heapIn *Heap
		if b.Index == 0 {
			reach = entryReach
			heapIn = entryHeap.Derive()
			fr.held = copySet(fr.heldIn)
		} else {
			var conds []Term
			var heaps []*Heap
			var fpreds []*ssa.BasicBlock
			for _, p := range b.Preds {
				if fr.backEdge[[2]int{p.Index, b.Index}] {
					continue
				}
				e, ok := fr.edges[[2]int{p.Index, b.Index}]
				if !ok {
					continue
				}
				conds = append(conds, e)
				heaps = append(heaps, fr.heapOut[p])
				fpreds = append(fpreds, p)
			}
			fr.held = nil
			for _, p := range fpreds {
				if fr.held == nil {
					fr.held = copySet(fr.heldOut[p])
				} else {
					for k := range fr.held {
						if !fr.heldOut[p][k] {
							delete(fr.held, k)
						}
					}
				}
			}
			if fr.held == nil {
				fr.held = map[string]bool{}
			}
			// ghost lets are path-sensitive: merge the predecessors' bindings like phis
			fr.ghosts = fr.mergeGhosts(fpreds, conds)
			if len(conds) == 0 {
				reach = "false"
				heapIn = entryHeap.Derive()
			} else {
				reach = vc.S.Define(fmt.Sprintf("%s.R%d", fr.prefix, b.Index), "Bool", or(conds...))
				heapIn = vc.mergeHeaps(heaps, conds)
			}
		}
		fr.reach[b] = reach
		fr.cur = heapIn
		li := fr.loops[b]
		if li != nil {
			fr.enterLoop(li, reach)
		} else {
			// phis
			for _, in := range b.Instrs {
				phi, ok := in.(*ssa.Phi)
				if !ok {
					break
				}
				fr.set(phi, fr.evalPhi(phi, b, false))
			}
		}
		for i, in := range b.Instrs {
			fr.curI = i
			if _, ok := in.(*ssa.Phi); ok {
				continue
			}
			fr.step(in)
		}
		fr.heapOut[b] = fr.cur
		fr.heldOut[b] = copySet(fr.held)
		go_ := map[string]*Val{}
		for k, v := range fr.ghosts {
			go_[k] = v
		}
		fr.ghostOut[b] = go_
	}
	_ = fn
}

func (fr *Frame) evalPhi(phi *ssa.Phi, b *ssa.BasicBlock, entryOnly bool) *Val {
	vc := fr.vc
	var terms []Term
	var conds []Term
	var any *Val
	for i, p := range b.Preds {
		if fr.backEdge[[2]int{p.Index, b.Index}] {
			continue
		}
		e, ok := fr.edges[[2]int{p.Index, b.Index}]
		if !ok {
			continue
		}
		x := fr.val(phi.Edges[i])
		any = x
		terms = append(terms, vc.term(x))
		conds = append(conds, e)
	}
	if len(terms) == 0 {
		return vc.fresh("phi."+phi.Name(), phi.Type())
	}
	if len(terms) == 1 {
		if any.P != nil || any.Sl != nil || any.Fn != nil {
			c := *any
			c.Typ = phi.Type()
			return &c
		}
	}
	t := terms[len(terms)-1]
	for i := len(terms) - 2; i >= 0; i-- {
		t = ite(conds[i], terms[i], t)
	}
	return fr.defineVal(phi, t)
}

func (fr *Frame) specEnvHere() *SpecEnv {
	return &SpecEnv{fr: fr, heap: fr.cur, old: fr.entry, block: fr.curB, idx: fr.curI, bound: map[string]*Val{}}
}

// enterLoop handles a loop header: check invariants on entry, havoc the loop
// targets, assume the invariants.
func (fr *Frame) enterLoop(li *loopInfo, reach Term) {
	vc := fr.vc
	b := li.header
	var invs []Clause
	if fr.c != nil && !fr.inlined {
		invs = fr.c.LoopInv[li.ordinal]
	} else if fr.c != nil {
		invs = fr.c.LoopInv[li.ordinal]
	}
	// ghost lets that a call inside the loop may rebind are unknown at the header
	if fr.c != nil && len(fr.ghosts) > 0 {
		for _, ac := range fr.c.AtCalls {
			if ac.Kind != "let" || fr.ghosts[ac.Let] == nil {
				continue
			}
			pat := ac.Callee
			if i := strings.LastIndex(pat, "#"); i > 0 {
				pat = pat[:i]
			}
		scan:
			for _, lb := range sortedBlocks(li.blocks) {
				for _, in := range lb.Instrs {
					ci, ok := in.(ssa.CallInstruction)
					if !ok {
						continue
					}
					cc := ci.Common()
					if calleeMatches(calleeName(cc, cc.StaticCallee()), pat) {
						delete(fr.ghosts, ac.Let)
						break scan
					}
				}
			}
		}
	}
	// entry values of header phis
	entry := map[ssa.Value]*Val{}
	var phis []*ssa.Phi
	for _, in := range b.Instrs {
		phi, ok := in.(*ssa.Phi)
		if !ok {
			break
		}
		phis = append(phis, phi)
		entry[phi] = fr.evalPhi(phi, b, true)
	}
	// ghost snapshots of the entry state ("loop K let")
	if fr.c != nil {
		for _, ll := range fr.c.LoopLets[li.ordinal] {
			fr.subst = entry
			env := fr.specEnvHere()
			env.idx = len(phis)
			v := env.eval(ll.Cl.E)
			fr.subst = nil
			sn := &Val{T: vc.S.Define("ghost."+ll.Name, vc.sortOfVal(v), vc.term(v)), Typ: v.Typ}
			if fr.ghosts == nil {
				fr.ghosts = map[string]*Val{}
			}
			fr.ghosts[ll.Name] = sn
			if vc.letTypes == nil {
				vc.letTypes = map[string]*Val{}
			}
			vc.letTypes[ll.Name] = sn
		}
	}
	// inv-init
	for k, inv := range invs {
		if fr.skipInv(inv) {
			continue
		}
		fr.subst = entry
		env := fr.specEnvHere()
		env.idx = len(phis)
		c := env.evalBool(inv.E)
		fr.subst = nil
		vc.addObl(&Obligation{Kind: "inv-init", Anchor: fmt.Sprintf("loop%d#%d", li.ordinal, k), Props: fr.c.ClauseProps(inv), Desc: inv.Src, File: inv.File, Line: inv.Line,
			Goals: []Goal{{Reach: reach, Cond: c}}, Mark: vc.S.Mark()})
	}
	// havoc: heap names written in loop
	mod, all := fr.loopWrites(li)
	if all {
		fr.cur = fr.cur.Havoc(nil, fmt.Sprintf("L%d", li.ordinal))
	} else if len(mod) > 0 {
		frames := fr.loopFrames(li)
		pre := fr.cur
		fr.cur = fr.cur.Havoc(mod, fmt.Sprintf("L%d", li.ordinal))
		for _, name := range sortedKeysOf(frames) {
			refs := frames[name]
			if mod[name] {
				fr.assertLoopFrame(name, refs, pre, fr.cur)
			}
		}
	}
	for _, phi := range phis {
		pv := vc.fresh(fmt.Sprintf("%s.%s.%s", fr.prefix, phi.Name(), phi.Comment), phi.Type())
		fr.set(phi, pv)
		fr.loadedRefFact(pv, phi.Type()) // references held in variables are nil or allocated
	}
	// assume invariants
	for _, inv := range invs {
		if fr.skipInv(inv) {
			continue
		}
		env := fr.specEnvHere()
		env.idx = len(phis)
		c := env.evalBool(inv.E)
		vc.S.Assert(implies(reach, c))
	}
}

// loopWrites computes the heap names possibly written inside the loop.
func (fr *Frame) loopWrites(li *loopInfo) (map[string]bool, bool) {
	mod := map[string]bool{}
	all := false
	for _, b := range sortedBlocks(li.blocks) {
		for _, in := range b.Instrs {
			switch x := in.(type) {
			case *ssa.Store:
				for _, n := range fr.staticHeapNames(x.Addr) {
					if n == "*" {
						all = true
					}
					mod[n] = true
				}
			case *ssa.MapUpdate:
				mt := x.Map.Type().Underlying().(*types.Map)
				d, v := fr.vc.mapNames(mt)
				mod[d], mod[v], mod["ML"] = true, true, true
				fr.vc.regHeap("ML", "(Array Int Int)")
			case *ssa.Go:
				// effects of a started goroutine are not sequenced with this function (A4)
			case *ssa.Next:
				if !x.IsString {
					if mt, ok := x.Iter.(*ssa.Range).X.Type().Underlying().(*types.Map); ok {
						ks := fr.vc.sortOf(mt.Key())
						mod[fr.vc.regHeap("GV|"+ks, "(Array Int (Array "+ks+" Bool))")] = true
					}
				}
			case ssa.CallInstruction:
				names, a := fr.callWrites(x)
				if a {
					all = true
				}
				for _, n := range names {
					mod[n] = true
				}
				// ghost variables the enclosing contract assigns at (or after) this call
				if fr.c != nil {
					cc := x.Common()
					cn := calleeName(cc, cc.StaticCallee())
					for _, ac := range fr.c.AtCalls {
						if ac.Kind != "set" {
							continue
						}
						pat := ac.Callee
						if i := strings.LastIndex(pat, "#"); i > 0 {
							pat = pat[:i]
						}
						if calleeMatches(cn, pat) {
							if gv, ok := fr.vc.P.CS.GhostVars[ac.Let]; ok {
								mod[fr.vc.ghostVarHeap(gv)] = true
							}
						}
					}
				}
			case *ssa.Alloc, *ssa.MakeSlice, *ssa.MakeMap, *ssa.MakeInterface:
				mod["$alloc"] = true
				switch y := in.(type) {
				case *ssa.MakeSlice:
					mod[fr.vc.memName(y.Type().Underlying().(*types.Slice).Elem())] = true
				case *ssa.Alloc:
					el := y.Type().(*types.Pointer).Elem()
					for _, n := range fr.vc.namesOfType(el) {
						mod[n] = true
					}
				case *ssa.MakeMap:
					mt := y.Type().Underlying().(*types.Map)
					d, v := fr.vc.mapNames(mt)
					mod[d], mod[v], mod["ML"] = true, true, true
					fr.vc.regHeap("ML", "(Array Int Int)")
				}
			case *ssa.Send, *ssa.Select:
			}
		}
	}
	return mod, all
}

// namesOfType: heap names that an allocation of type t initialises.
func (vc *VC) namesOfType(el types.Type) []string {
	if isOpaqueSpecial(el) {
		return []string{vc.cellName(el)}
	}
	switch u := el.Underlying().(type) {
	case *types.Struct:
		var out []string
		for i := 0; i < u.NumFields(); i++ {
			out = append(out, vc.fieldName(el, i))
		}
		return out
	case *types.Array:
		return []string{vc.memName(u.Elem())}
	}
	return []string{vc.cellName(el)}
}

// staticHeapNames: heap names a store through addr may touch.
func (fr *Frame) staticHeapNames(addr ssa.Value) []string {
	vc := fr.vc
	switch a := addr.(type) {
	case *ssa.FieldAddr:
		// walk to the root field
		root := a
		for {
			if inner, ok := root.X.(*ssa.FieldAddr); ok {
				root = inner
				continue
			}
			break
		}
		switch rx := root.X.(type) {
		case *ssa.IndexAddr:
			return fr.staticHeapNames(rx)
		}
		return []string{vc.fieldName(root.X.Type(), root.Field)}
	case *ssa.IndexAddr:
		switch t := a.X.Type().Underlying().(type) {
		case *types.Slice:
			return []string{vc.memName(t.Elem())}
		case *types.Pointer:
			if fa, ok := a.X.(*ssa.FieldAddr); ok {
				return fr.staticHeapNames(fa)
			}
			if arr, ok := t.Elem().Underlying().(*types.Array); ok {
				return []string{vc.memName(arr.Elem())}
			}
		}
	case *ssa.Global:
		t := a.Type().(*types.Pointer).Elem()
		return []string{vc.regHeap("G|"+a.Pkg.Pkg.Path()+"."+a.Name(), vc.sortOf(t))}
	}
	pt, ok := addr.Type().Underlying().(*types.Pointer)
	if !ok {
		return []string{"*"}
	}
	return vc.namesOfType(pt.Elem())
}

func (fr *Frame) exitEdges(b *ssa.BasicBlock, conds []Term) {
	for i, s := range b.Succs {
		e := and(fr.reach[b], conds[i])
		if fr.backEdge[[2]int{b.Index, s.Index}] {
			fr.closeLoop(fr.loops[s], b, e)
			continue
		}
		fr.edges[[2]int{b.Index, s.Index}] = fr.vc.S.Define(fmt.Sprintf("%s.E%d_%d", fr.prefix, b.Index, s.Index), "Bool", e)
	}
}

// closeLoop checks the invariants along a back edge.
func (fr *Frame) closeLoop(li *loopInfo, from *ssa.BasicBlock, edge Term) {
	vc := fr.vc
	if fr.c == nil {
		return
	}
	invs := fr.c.LoopInv[li.ordinal]
	if len(invs) == 0 {
		return
	}
	b := li.header
	next := map[ssa.Value]*Val{}
	nphi := 0
	for _, in := range b.Instrs {
		phi, ok := in.(*ssa.Phi)
		if !ok {
			break
		}
		nphi++
		for i, p := range b.Preds {
			if p == from {
				next[phi] = fr.val(phi.Edges[i])
			}
		}
	}
	for k, inv := range invs {
		if fr.skipInv(inv) {
			continue
		}
		fr.subst = next
		env := &SpecEnv{fr: fr, heap: fr.cur, old: fr.entry, block: b, idx: nphi, bound: map[string]*Val{}}
		c := env.evalBool(inv.E)
		fr.subst = nil
		vc.addObl(&Obligation{Kind: "inv-step", Anchor: fmt.Sprintf("loop%d#%d", li.ordinal, k), Props: fr.c.ClauseProps(inv), Desc: inv.Src, File: inv.File, Line: inv.Line,
			Goals: []Goal{{Reach: edge, Cond: c}}, Mark: vc.S.Mark()})
	}
}

func copySet(m map[string]bool) map[string]bool {
	o := map[string]bool{}
	for k, v := range m {
		if v {
			o[k] = true
		}
	}
	return o
}

var funcTags = map[string]int{}

func funcTag(name string) int {
	if id, ok := funcTags[name]; ok {
		return id
	}
	id := len(funcTags) + 1
	funcTags[name] = id
	return id
}

func (fr *Frame) mergeGhosts(preds []*ssa.BasicBlock, conds []Term) map[string]*Val {
	out := map[string]*Val{}
	names := map[string]bool{}
	for _, p := range preds {
		for k := range fr.ghostOut[p] {
			names[k] = true
		}
	}
	vc := fr.vc
	for _, name := range sortedKeys(names) {
		var vals []*Val
		same := true
		for _, p := range preds {
			v := fr.ghostOut[p][name]
			vals = append(vals, v)
			if v == nil || vals[0] == nil || v.T != vals[0].T {
				same = false
			}
		}
		if same {
			out[name] = vals[0]
			continue
		}
		// bound on some paths only, or to different values: a path-dependent value
		var typ *Val
		for _, v := range vals {
			if v != nil {
				typ = v
				break
			}
		}
		sortS := vc.sortOfVal(typ)
		var t Term
		for i := len(vals) - 1; i >= 0; i-- {
			vt := ""
			if vals[i] != nil {
				vt = vals[i].T
			} else {
				vt = vc.S.FreshConst("unbound."+name, sortS)
			}
			if t == "" {
				t = vt
			} else {
				t = ite(conds[i], vt, t)
			}
		}
		out[name] = &Val{T: vc.S.Define("ghost."+name, sortS, t), Typ: typ.Typ}
	}
	return out
}

// skipInv: a loop invariant tagged for other properties only ("loop[C06] K invariant ...") is neither checked
// nor assumed in this property's run - every property's check stands on its own clauses and the untagged ones.
func (fr *Frame) skipInv(inv Clause) bool {
	return CurProp != "" && len(inv.Props) > 0 && !hasStr(inv.Props, CurProp)
}
