package vc

import (
	"strings"
)

// Query slicing for cvc5. cvc5 1.0 refuses any script that declares an array indexed by an array sort
// ("Arrays cannot be indexed by array types"), which is how maps keyed by [16]byte agent identifiers are
// encoded. Most obligations in functions that merely mention such a map do not depend on it. sliceArrayKeyed
// removes every assumption that mentions a symbol of such a sort (a definition that mentions one becomes an
// unconstrained constant of its sort). Dropping assumptions can only make a query easier to satisfy, so an
// `unsat` answer on the sliced query is an `unsat` answer on the original; any other answer on the sliced
// query means nothing and is discarded by the caller. Returns ok=false when the goal itself needs a removed
// symbol or nothing had to be removed.
const badIndexSort = "(Array (Array Int Int)"

func sliceArrayKeyed(text string) (string, bool) {
	if !strings.Contains(text, badIndexSort) {
		return "", false
	}
	lines := strings.Split(text, "\n")
	bad := map[string]bool{}
	mentionsBad := func(l string) bool {
		if strings.Contains(l, badIndexSort) {
			return true
		}
		for _, tok := range smtTokens(l) {
			if bad[tok] {
				return true
			}
		}
		return false
	}
	// declarations of bad sorts
	for _, l := range lines {
		if strings.HasPrefix(l, "(declare-fun ") || strings.HasPrefix(l, "(declare-const ") {
			if strings.Contains(l, badIndexSort) {
				if toks := smtTokens(l); len(toks) > 1 {
					bad[toks[1]] = true
				}
			}
		}
	}
	// definitions: to a fixpoint
	drop := map[int]bool{}
	repl := map[int]string{}
	for changed := true; changed; {
		changed = false
		for i, l := range lines {
			if drop[i] || repl[i] != "" || !strings.HasPrefix(l, "(define-fun ") {
				continue
			}
			name, params, sort, body, ok := splitDefine(l)
			if !ok {
				continue
			}
			if !mentionsBad(params+" "+sort) && !mentionsBad(body) {
				continue
			}
			changed = true
			if strings.TrimSpace(params) == "()" && !strings.Contains(sort, badIndexSort) {
				repl[i] = "(declare-fun " + name + " () " + sort + ")"
			} else {
				bad[name] = true
				drop[i] = true
			}
		}
	}
	goal := -1
	for i, l := range lines {
		if strings.HasPrefix(l, "(check-sat") {
			break
		}
		if strings.HasPrefix(l, "(assert") {
			goal = i
		}
	}
	if goal < 0 || mentionsBad(lines[goal]) {
		return "", false
	}
	var out []string
	for i, l := range lines {
		switch {
		case drop[i]:
		case repl[i] != "":
			out = append(out, repl[i])
		case strings.HasPrefix(l, "(get-value") || strings.HasPrefix(l, "(get-model"):
		case strings.HasPrefix(l, "(declare-fun ") || strings.HasPrefix(l, "(declare-const "):
			if !strings.Contains(l, badIndexSort) {
				out = append(out, l)
			}
		case strings.HasPrefix(l, "(assert"):
			if i == goal || !mentionsBad(l) {
				out = append(out, l)
			}
		default:
			if !mentionsBad(l) || strings.HasPrefix(l, "(set-") || strings.HasPrefix(l, ";") {
				out = append(out, l)
			}
		}
	}
	return strings.Join(out, "\n"), true
}

// smtTokens splits one line of SMT-LIB text into atoms (|quoted| symbols kept whole).
func smtTokens(l string) []string {
	var toks []string
	i := 0
	for i < len(l) {
		c := l[i]
		switch {
		case c == '(' || c == ')' || c == ' ' || c == '\t':
			i++
		case c == '|':
			j := strings.IndexByte(l[i+1:], '|')
			if j < 0 {
				toks = append(toks, l[i:])
				return toks
			}
			toks = append(toks, l[i:i+j+2])
			i += j + 2
		case c == '"':
			j := strings.IndexByte(l[i+1:], '"')
			if j < 0 {
				return toks
			}
			i += j + 2
		default:
			j := i
			for j < len(l) && l[j] != '(' && l[j] != ')' && l[j] != ' ' && l[j] != '\t' {
				j++
			}
			toks = append(toks, l[i:j])
			i = j
		}
	}
	return toks
}

// splitDefine takes "(define-fun name (params) Sort body)" apart.
func splitDefine(l string) (name, params, sort, body string, ok bool) {
	rest := strings.TrimPrefix(l, "(define-fun ")
	rest = strings.TrimSpace(rest)
	// name
	if strings.HasPrefix(rest, "|") {
		j := strings.IndexByte(rest[1:], '|')
		if j < 0 {
			return
		}
		name, rest = rest[:j+2], strings.TrimSpace(rest[j+2:])
	} else {
		j := strings.IndexAny(rest, " (")
		if j < 0 {
			return
		}
		name, rest = rest[:j], strings.TrimSpace(rest[j:])
	}
	next := func(s string) (string, string, bool) {
		s = strings.TrimSpace(s)
		if s == "" {
			return "", "", false
		}
		if s[0] != '(' {
			j := strings.IndexAny(s, " )")
			if j < 0 {
				return s, "", true
			}
			return s[:j], s[j:], true
		}
		depth := 0
		inq := false
		for i := 0; i < len(s); i++ {
			switch {
			case s[i] == '|':
				inq = !inq
			case inq:
			case s[i] == '(':
				depth++
			case s[i] == ')':
				depth--
				if depth == 0 {
					return s[:i+1], s[i+1:], true
				}
			}
		}
		return "", "", false
	}
	var o bool
	if params, rest, o = next(rest); !o {
		return
	}
	if sort, rest, o = next(rest); !o {
		return
	}
	rest = strings.TrimSpace(rest)
	if !strings.HasSuffix(rest, ")") {
		return
	}
	body = strings.TrimSpace(rest[:len(rest)-1])
	ok = true
	return
}
