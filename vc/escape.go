package vc

import (
	"go/types"

	"golang.org/x/tools/go/ssa"
)

// Escape tracking for objects allocated by the function under verification:
// an unknown callee cannot modify a fresh object whose address it cannot
// reach. An Alloc "leaks" at the first instruction that hands its address
// (or a pointer derived from it) to something other than a direct load,
// store, field or index access.

type freshObj struct {
	ref     Term
	names   []string
	escaped bool
	alloc   *ssa.Alloc
}

// leakPoints returns the instructions at which the address of a leaks; a nil
// key entry means "leaks immediately" (a derived pointer is used in a way we do not follow).
func leakPoints(a *ssa.Alloc) (map[ssa.Instruction]bool, bool) {
	leaks := map[ssa.Instruction]bool{}
	immediate := false
	var derived func(v ssa.Value)
	derived = func(v ssa.Value) {
		refs := v.Referrers()
		if refs == nil {
			immediate = true
			return
		}
		for _, r := range *refs {
			switch x := r.(type) {
			case *ssa.DebugRef:
			case *ssa.UnOp:
			case *ssa.Store:
				if x.Val == v {
					immediate = true
				}
			case *ssa.FieldAddr:
				derived(x)
			case *ssa.IndexAddr:
				derived(x)
			default:
				immediate = true
			}
		}
	}
	refs := a.Referrers()
	if refs == nil {
		return leaks, true
	}
	for _, r := range *refs {
		switch x := r.(type) {
		case *ssa.DebugRef:
		case *ssa.UnOp:
		case *ssa.Store:
			if x.Val == ssa.Value(a) {
				leaks[x] = true
			}
		case *ssa.FieldAddr:
			derived(x)
		case *ssa.IndexAddr:
			derived(x)
		default:
			leaks[r] = true
		}
	}
	return leaks, immediate
}

func (fr *Frame) trackAlloc(a *ssa.Alloc, v *Val) {
	vc := fr.vc
	el := a.Type().(*types.Pointer).Elem()
	leaks, immediate := leakPoints(a)
	fo := &freshObj{ref: v.T, names: vc.namesOfType(el), escaped: immediate, alloc: a}
	vc.fresh_ = append(vc.fresh_, fo)
	if !immediate {
		for in := range leaks {
			vc.leakAt[in] = append(vc.leakAt[in], fo)
		}
	}
}

// noteLeaks marks objects whose address escapes at this instruction.
func (fr *Frame) noteLeaks(in ssa.Instruction) {
	for _, fo := range fr.vc.leakAt[in] {
		fo.escaped = true
	}
}

// preserveUnescaped: after a whole-heap havoc, objects that have not escaped keep their contents.
func (fr *Frame) preserveUnescaped(pre, post *Heap) {
	vc := fr.vc
	for _, fo := range vc.fresh_ {
		if fo.escaped {
			continue
		}
		for _, n := range fo.names {
			if _, ok := vc.heapSorts[n]; !ok {
				continue
			}
			vc.S.Assert(eq(sel(post.Get(n), fo.ref), sel(pre.Get(n), fo.ref)))
		}
	}
}
