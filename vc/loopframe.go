package vc

import (
	"fmt"
	"go/types"
	"strings"

	"golang.org/x/tools/go/ssa"
)

// loopFrames finds, for heap names written in a loop only by stores through
// loop-invariant base references, the set of those references. For such a name
// the loop havoc keeps every other (already allocated) location unchanged, so
// no invariant has to restate that.
func (fr *Frame) loopFrames(li *loopInfo) map[string][]Term {
	vc := fr.vc
	bases := map[string][]Term{}
	unrestricted := map[string]bool{}
	outside := func(v ssa.Value) bool {
		switch x := v.(type) {
		case *ssa.Parameter, *ssa.Const, *ssa.Global, *ssa.FreeVar:
			return true
		case ssa.Instruction:
			return !li.blocks[x.Block()]
		}
		return false
	}
	add := func(name string, t Term) {
		for _, o := range bases[name] {
			if o == t {
				return
			}
		}
		bases[name] = append(bases[name], t)
	}
	for b := range li.blocks {
		for _, in := range b.Instrs {
			switch x := in.(type) {
			case *ssa.Store:
				names := fr.staticHeapNames(x.Addr)
				ok := false
				switch a := x.Addr.(type) {
				case *ssa.IndexAddr:
					if outside(a.X) {
						bv := fr.val(a.X)
						switch a.X.Type().Underlying().(type) {
						case *types.Slice:
							add(names[0], vc.slice(bv).Base)
							ok = true
						case *types.Pointer:
							if p := vc.ptrOf(bv); p != nil && strings.HasPrefix(p.Heap, "M|") && len(p.Path) == 0 {
								add(names[0], p.Ref)
								ok = true
							} else if p != nil && !p.Obj && p.Ref != "" {
								add(p.Heap, p.Ref)
								ok = len(names) == 1 && names[0] == p.Heap
							}
						}
					}
				case *ssa.FieldAddr:
					root := a
					for {
						if inner, isF := root.X.(*ssa.FieldAddr); isF {
							root = inner
							continue
						}
						break
					}
					if outside(root.X) {
						if _, isPtr := root.X.Type().Underlying().(*types.Pointer); isPtr {
							bv := fr.val(root.X)
							if bv.P == nil && len(names) == 1 {
								add(names[0], vc.term(bv))
								ok = true
							}
						}
					}
				}
				if !ok {
					for _, n := range names {
						unrestricted[n] = true
					}
				}
			case *ssa.MapUpdate:
				mt := x.Map.Type().Underlying().(*types.Map)
				d, v := vc.mapNames(mt)
				unrestricted[d], unrestricted[v], unrestricted["ML"] = true, true, true
			case *ssa.Go:
			case ssa.CallInstruction:
				names, _ := fr.callWrites(x)
				for _, n := range names {
					if n != "$alloc" {
						unrestricted[n] = true
					}
				}
			}
		}
	}
	for n := range unrestricted {
		delete(bases, n)
	}
	return bases
}

// assertLoopFrame states that a havocked heap name agrees with its pre-loop
// version on every allocated location other than the given base references.
func (fr *Frame) assertLoopFrame(name string, refs []Term, pre, post *Heap) {
	vc := fr.vc
	if strings.HasPrefix(name, "G|") || name == "$alloc" {
		return
	}
	oldA, newA := pre.Get(name), post.Get(name)
	if oldA == newA {
		return
	}
	var ne []Term
	for _, r := range refs {
		ne = append(ne, not(eq("r", r)))
	}
	al := pre.Get("$alloc")
	vc.S.Assert(fmt.Sprintf("(forall ((r Int)) (! (=> (and (select %s r) %s) (= (select %s r) (select %s r))) :pattern ((select %s r))))", al, and(ne...), newA, oldA, newA))
}
