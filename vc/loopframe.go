package vc

import (
	"fmt"
	"os"
	"go/types"
	"strings"

	"golang.org/x/tools/go/ssa"
)

// loopFrames finds, for heap names written in a loop only by stores through
// loop-invariant base references, the set of those references. For such a name
// the loop havoc keeps every other (already allocated) location unchanged, so
// no invariant has to restate that.
func (fr *Frame) loopFrames(li *loopInfo) map[string][]Term {
	vc := fr.vc
	bases := map[string][]Term{}
	unrestricted := map[string]bool{}
	outside := func(v ssa.Value) bool {
		switch x := v.(type) {
		case *ssa.Parameter, *ssa.Const, *ssa.Global, *ssa.FreeVar:
			return true
		case ssa.Instruction:
			return !li.blocks[x.Block()]
		}
		return false
	}
	add := func(name string, t Term) {
		for _, o := range bases[name] {
			if o == t {
				return
			}
		}
		bases[name] = append(bases[name], t)
	}
	touch := func(name string) {
		if _, ok := bases[name]; !ok {
			bases[name] = nil
		}
	}
	// addrBases records, for a write through addr inside the loop, the (heap name, base reference) it is
	// confined to, or marks the heap names as unrestricted when no loop-invariant base can be named.
	addrBases := func(addr ssa.Value) {
		if rootAllocIn(li, addr) {
			// a variable declared inside the loop body: a fresh object in every iteration
			for _, n := range fr.staticHeapNames(addr) {
				touch(n)
			}
			return
		}
		names := fr.staticHeapNames(addr)
		ok := false
		switch a := addr.(type) {
		case *ssa.IndexAddr:
			if base, okb := fr.stableSliceField(li, a.X, outside); okb {
				// element store into a slice held in a field that the loop never rewrites
				add(names[0], base)
				ok = true
			} else if outside(a.X) {
				bv := fr.val(a.X)
				switch a.X.Type().Underlying().(type) {
				case *types.Slice:
					add(names[0], vc.slice(bv).Base)
					ok = true
				case *types.Pointer:
					if p := vc.ptrOf(bv); p != nil && strings.HasPrefix(p.Heap, "M|") && len(p.Path) == 0 {
						add(names[0], p.Ref)
						ok = true
					} else if p != nil && !p.Obj && p.Ref != "" {
						add(p.Heap, p.Ref)
						ok = len(names) == 1 && names[0] == p.Heap
					}
				}
			}
		case *ssa.FieldAddr:
			root := a
			for {
				if inner, isF := root.X.(*ssa.FieldAddr); isF {
					root = inner
					continue
				}
				break
			}
			if ia, isIA := root.X.(*ssa.IndexAddr); isIA && len(names) == 1 && strings.HasPrefix(names[0], "M|") {
				// field of an element of a slice held in a stable field, or of a loop-invariant slice
				if base, okb := fr.stableSliceField(li, ia.X, outside); okb {
					add(names[0], base)
					ok = true
				} else if outside(ia.X) {
					if _, isSl := ia.X.Type().Underlying().(*types.Slice); isSl {
						add(names[0], vc.slice(fr.val(ia.X)).Base)
						ok = true
					}
				}
			} else if outside(root.X) {
				if _, isPtr := root.X.Type().Underlying().(*types.Pointer); isPtr {
					bv := fr.val(root.X)
					if bv.P == nil && len(names) == 1 {
						add(names[0], vc.term(bv))
						ok = true
					}
				}
			}
		}
		if !ok {
			for _, n := range names {
				unrestricted[n] = true
			}
		}
	}
	for _, b := range sortedBlocks(li.blocks) {
		for _, in := range b.Instrs {
			switch x := in.(type) {
			case *ssa.Store:
				addrBases(x.Addr)
			case *ssa.MapUpdate:
				mt := x.Map.Type().Underlying().(*types.Map)
				d, v := vc.mapNames(mt)
				unrestricted[d], unrestricted[v], unrestricted["ML"] = true, true, true
			case *ssa.Go:
			case ssa.CallInstruction:
				if bi, isB := x.Common().Value.(*ssa.Builtin); isB {
					args := x.Common().Args
					if bi.Name() == "copy" && len(args) > 0 && rootAllocIn(li, args[0]) {
						if sl, isSl := args[0].(*ssa.Slice); isSl {
							for _, n := range fr.staticHeapNames(sl.X) {
								touch(n)
							}
							if st, isS := args[0].Type().Underlying().(*types.Slice); isS {
								touch(vc.memName(st.Elem()))
							}
							continue
						}
					}
					if bi.Name() == "copy" && len(args) > 0 {
						// copy into a window of a slice held in a field that the loop never rewrites
						if sl, isSl := args[0].(*ssa.Slice); isSl {
							if base, okb := fr.stableSliceField(li, sl.X, outside); okb {
								if st, isS := args[0].Type().Underlying().(*types.Slice); isS {
									add(vc.memName(st.Elem()), base)
									continue
								}
							}
						}
					}
					if bi.Name() == "append" && len(args) > 0 {
						if base, okb := fr.appendOnlyField(li, args[0], outside); okb {
							if st, isSl := args[0].Type().Underlying().(*types.Slice); isSl {
								add(vc.memName(st.Elem()), base)
								continue
							}
						}
					}
				}
				// a callee under contract whose modifies clauses are all contents(p), p a pointer parameter:
				// it writes exactly through the argument addresses
				if idxs, ok := fr.contentsOnlyCall(x); ok {
					for _, k := range idxs {
						addrBases(x.Common().Args[k])
					}
					continue
				}
				// a callee under contract whose modifies clauses are all "param.field" with the
				// argument for param defined outside the loop writes only through that reference
				if pairs, ok := fr.contractCallBases(li, x, outside); ok {
					for _, pr := range pairs {
						add(pr[0], pr[1])
					}
					continue
				}
				names, _ := fr.callWrites(x)
				for _, n := range names {
					if n != "$alloc" {
						unrestricted[n] = true
					}
				}
			}
		}
	}
	if os.Getenv("VERIF_DEBUG_LOOPFRAME") != "" {
		fmt.Fprintf(os.Stderr, "loopframe %s L%d bases=%v unrestricted=%v\n", fr.fn.Name(), li.ordinal, bases, unrestricted)
	}
	for n := range unrestricted {
		delete(bases, n)
	}
	return bases
}

// assertLoopFrame states that a havocked heap name agrees with its pre-loop
// version on every allocated location other than the given base references.
func (fr *Frame) assertLoopFrame(name string, refs []Term, pre, post *Heap) {
	vc := fr.vc
	if strings.HasPrefix(name, "G|") || name == "$alloc" {
		return
	}
	oldA, newA := pre.Get(name), post.Get(name)
	if oldA == newA {
		return
	}
	var ne []Term
	for _, r := range refs {
		ne = append(ne, not(eq("r", r)))
	}
	al := pre.Get("$alloc")
	vc.S.Assert(fmt.Sprintf("(forall ((r Int)) (! (=> (and (select %s r) %s) (= (select %s r) (select %s r))) :pattern ((select %s r))))", al, and(ne...), newA, oldA, newA))
}

// contractCallBases returns (heap name, reference) pairs for a call to a function under contract
// whose modifies clauses are all of the form param.field, with loop-invariant arguments.
func (fr *Frame) contractCallBases(li *loopInfo, x ssa.CallInstruction, outside func(ssa.Value) bool) ([][2]string, bool) {
	vc := fr.vc
	cc := x.Common()
	callee := cc.StaticCallee()
	if callee == nil || cc.IsInvoke() {
		return nil, false
	}
	c := vc.P.ContractFor(callee)
	if c == nil || c.ModAll || c.Inline || len(c.Modifies) == 0 {
		return nil, false
	}
	env := vc.calleeTypeEnv(c, callee, cc)
	var out [][2]string
	for _, m := range c.Modifies {
		sel, ok := m.E.(*Sel)
		inContents := false
		if !ok {
			// contents(param.field): the elements of the slice held in a field of the loop-invariant
			// argument, provided no instruction of the loop rewrites that field
			if ce, isC := m.E.(*CallE); isC && len(ce.Args) == 1 {
				if fn, _ := ce.Fun.(*Ident); fn != nil && fn.Name == "contents" {
					sel, ok = ce.Args[0].(*Sel)
					inContents = ok
				}
			}
		}
		if !ok {
			return nil, false
		}
		id, ok := sel.X.(*Ident)
		if !ok {
			return nil, false
		}
		k := -1
		for i, prm := range callee.Params {
			if prm.Name() == id.Name {
				k = i
			}
		}
		if k < 0 || k >= len(cc.Args) || !outside(cc.Args[k]) {
			return nil, false
		}
		if _, isPtr := cc.Args[k].Type().Underlying().(*types.Pointer); !isPtr {
			return nil, false
		}
		bv := fr.val(cc.Args[k])
		if bv.P != nil {
			return nil, false
		}
		names := env.modNames(m.E)
		if len(names) != 1 {
			return nil, false
		}
		if inContents {
			fnames := env.modNames(sel) // heap name of the field that holds the slice
			if len(fnames) != 1 || li == nil || !fr.heapNameUnwrittenIn(li, fnames[0], x) {
				return nil, false
			}
			_, st := structOf(bv.Typ)
			if st == nil {
				return nil, false
			}
			fi := -1
			for i := 0; i < st.NumFields(); i++ {
				if st.Field(i).Name() == sel.Name {
					fi = i
				}
			}
			if fi < 0 {
				return nil, false
			}
			if _, isSl := st.Field(fi).Type().Underlying().(*types.Slice); !isSl {
				return nil, false
			}
			fp := vc.fieldPtr(bv, fi)
			if fp == nil {
				return nil, false
			}
			fv := vc.loadPtr(fp, fr.cur)
			if fv == nil {
				return nil, false
			}
			out = append(out, [2]string{names[0], vc.slice(fv).Base})
			continue
		}
		out = append(out, [2]string{names[0], vc.term(bv)})
	}
	return out, true
}

// heapNameUnwrittenIn: no store or call in the loop (other than through modifies clauses that do not name it)
// writes the heap name.
func (fr *Frame) heapNameUnwrittenIn(li *loopInfo, name string, self ssa.CallInstruction) bool {
	for _, b := range sortedBlocks(li.blocks) {
		for _, in := range b.Instrs {
			switch y := in.(type) {
			case *ssa.Store:
				for _, n := range fr.staticHeapNames(y.Addr) {
					if n == name || n == "*" {
						return false
					}
				}
			case ssa.CallInstruction:
				if _, isGo := in.(*ssa.Go); isGo {
					return false
				}
				ns, all := fr.callWrites(y)
				if all {
					return false
				}
				for _, n := range ns {
					if n == name {
						return false
					}
				}
			}
		}
	}
	return true
}

// stableSliceField recognises x = *(&root.f) (a slice-typed field loaded inside the loop) where root is
// loop-invariant and no instruction of the loop writes the field f; it returns the base of the slice
// the field holds on loop entry.
func (fr *Frame) stableSliceField(li *loopInfo, x ssa.Value, outside func(ssa.Value) bool) (Term, bool) {
	vc := fr.vc
	u, ok := x.(*ssa.UnOp)
	if !ok {
		return "", false
	}
	fa, ok := u.X.(*ssa.FieldAddr)
	if !ok {
		return "", false
	}
	// root.f1.f2...: nested struct values inside one object; the root reference must be loop-invariant
	chain := []*ssa.FieldAddr{fa}
	for {
		inner, isF := chain[0].X.(*ssa.FieldAddr)
		if !isF {
			break
		}
		chain = append([]*ssa.FieldAddr{inner}, chain...)
	}
	if !outside(chain[0].X) {
		return "", false
	}
	if _, isSl := x.Type().Underlying().(*types.Slice); !isSl {
		return "", false
	}
	fnames := fr.staticHeapNames(fa)
	if len(fnames) != 1 || fnames[0] == "*" {
		return "", false
	}
	for _, b := range sortedBlocks(li.blocks) {
		for _, in := range b.Instrs {
			switch y := in.(type) {
			case *ssa.Store:
				for _, n := range fr.staticHeapNames(y.Addr) {
					if n == fnames[0] || n == "*" {
						return "", false
					}
				}
			case ssa.CallInstruction:
				if _, isGo := in.(*ssa.Go); isGo {
					return "", false
				}
				ns, all := fr.callWrites(y)
				if all {
					return "", false
				}
				for _, n := range ns {
					if n == fnames[0] {
						return "", false
					}
				}
			}
		}
	}
	bv := fr.val(chain[0].X)
	if bv.P != nil {
		return "", false
	}
	var p *Ptr
	for k, f := range chain {
		if k == 0 {
			p = vc.fieldPtr(bv, f.Field)
		} else {
			p = vc.fieldPtr(&Val{P: p, Typ: types.NewPointer(p.Elem)}, f.Field)
		}
		if p == nil {
			return "", false
		}
	}
	v := vc.loadPtr(p, fr.cur)
	if v == nil {
		return "", false
	}
	return vc.slice(v).Base, true
}

// rootAllocIn reports whether the address chain of v (field, index, slice steps) starts at a local
// variable allocated inside the loop.
func rootAllocIn(li *loopInfo, v ssa.Value) bool {
	for {
		switch x := v.(type) {
		case *ssa.FieldAddr:
			v = x.X
		case *ssa.IndexAddr:
			v = x.X
		case *ssa.Slice:
			v = x.X
		case *ssa.Alloc:
			return li.blocks[x.Block()]
		default:
			return false
		}
	}
}

// appendOnlyField recognises append(root.f, ...) where root is loop-invariant and, inside the loop, the
// field f is only ever assigned the result of appending to itself. The field then holds either the
// slice it held on loop entry or one allocated later, so element writes touch only the entry base or
// memory that did not exist on loop entry. Returns that entry base.
func (fr *Frame) appendOnlyField(li *loopInfo, x ssa.Value, outside func(ssa.Value) bool) (Term, bool) {
	vc := fr.vc
	u, ok := x.(*ssa.UnOp)
	if !ok {
		return "", false
	}
	fa, ok := u.X.(*ssa.FieldAddr)
	if !ok || !outside(fa.X) {
		return "", false
	}
	fnames := fr.staticHeapNames(fa)
	if len(fnames) != 1 || fnames[0] == "*" {
		return "", false
	}
	sameField := func(a ssa.Value) bool {
		o, ok := a.(*ssa.FieldAddr)
		return ok && o.X == fa.X && o.Field == fa.Field
	}
	for _, b := range sortedBlocks(li.blocks) {
		for _, in := range b.Instrs {
			switch y := in.(type) {
			case *ssa.Store:
				touches := false
				for _, n := range fr.staticHeapNames(y.Addr) {
					if n == fnames[0] || n == "*" {
						touches = true
					}
				}
				if !touches {
					continue
				}
				if !sameField(y.Addr) {
					return "", false
				}
				call, isCall := y.Val.(*ssa.Call)
				if !isCall {
					return "", false
				}
				bi, isB := call.Call.Value.(*ssa.Builtin)
				if !isB || bi.Name() != "append" {
					return "", false
				}
				ld, isLd := call.Call.Args[0].(*ssa.UnOp)
				if !isLd || !sameField(ld.X) {
					return "", false
				}
			case ssa.CallInstruction:
				if _, isGo := in.(*ssa.Go); isGo {
					return "", false
				}
				if _, isB := y.Common().Value.(*ssa.Builtin); isB {
					continue
				}
				ns, all := fr.callWrites(y)
				if all {
					return "", false
				}
				for _, n := range ns {
					if n == fnames[0] {
						return "", false
					}
				}
			}
		}
	}
	bv := fr.val(fa.X)
	if bv.P != nil {
		return "", false
	}
	p := vc.fieldPtr(bv, fa.Field)
	if p == nil {
		return "", false
	}
	v := vc.loadPtr(p, fr.cur)
	if v == nil {
		return "", false
	}
	return vc.slice(v).Base, true
}

// contentsOnlyCall: the call goes to a function under contract whose modifies clauses are all of the
// form contents(p) with p a pointer (non-array) parameter; returns the argument positions.
func (fr *Frame) contentsOnlyCall(x ssa.CallInstruction) ([]int, bool) {
	cc := x.Common()
	callee := cc.StaticCallee()
	if callee == nil || cc.IsInvoke() {
		return nil, false
	}
	c := fr.vc.P.ContractFor(callee)
	if c == nil || c.ModAll || c.Inline || len(c.Modifies) == 0 {
		return nil, false
	}
	var out []int
	for _, m := range c.Modifies {
		k := contentsPtrParam(m.E, callee)
		if k < 0 || k >= len(cc.Args) {
			return nil, false
		}
		out = append(out, k)
	}
	return out, true
}

// contentsPtrParam: e is contents(p) with p a parameter of pointer-to-non-array type; returns its index or -1.
func contentsPtrParam(e Expr, callee *ssa.Function) int {
	ce, ok := e.(*CallE)
	if !ok || len(ce.Args) != 1 {
		return -1
	}
	fn, _ := ce.Fun.(*Ident)
	id, _ := ce.Args[0].(*Ident)
	if fn == nil || fn.Name != "contents" || id == nil {
		return -1
	}
	for i, prm := range callee.Params {
		if prm.Name() != id.Name {
			continue
		}
		pt, isPtr := prm.Type().Underlying().(*types.Pointer)
		if !isPtr {
			return -1
		}
		if _, isArr := pt.Elem().Underlying().(*types.Array); isArr {
			return -1
		}
		return i
	}
	return -1
}
