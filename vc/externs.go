package vc

import (
	"fmt"
	"go/types"
	"math/big"
	"sort"
	"strings"

	"golang.org/x/tools/go/ssa"
)

// Go-side models of standard-library functions. Each is an assumed contract
// (listed in evidence under trusted_base as "model:<name>").

type externHandler func(fr *Frame, in ssa.Instruction, args []*Val, resT types.Type) (*Val, bool)

var externHandlers map[string]externHandler

// externWrites: what the modelled externs may write (for loop havoc).
var externWrites = map[string][]string{}

func init() {
	externHandlers = map[string]externHandler{}
	h := externHandlers
	pureInt := func(f func(vc *VC, a []Term) Term) externHandler {
		return func(fr *Frame, in ssa.Instruction, args []*Val, resT types.Type) (*Val, bool) {
			vc := fr.vc
			var ts []Term
			for _, a := range args {
				ts = append(ts, vc.term(a))
			}
			return &Val{T: vc.S.Define("ext", vc.sortOf(resT), f(vc, ts)), Typ: resT}, true
		}
	}
	reg := func(name string, writes []string, f externHandler) {
		h[name] = f
		externWrites[name] = writes
	}
	// --- time (A5: time.Time is an integer count of nanoseconds, no saturation) ---
	reg("time.Time.Sub", nil, pureInt(func(vc *VC, a []Term) Term { return sub(a[0], a[1]) }))
	reg("time.Time.Add", nil, pureInt(func(vc *VC, a []Term) Term { return add(a[0], a[1]) }))
	reg("time.Time.After", nil, pureInt(func(vc *VC, a []Term) Term { return cmp(">", a[0], a[1]) }))
	reg("time.Time.Before", nil, pureInt(func(vc *VC, a []Term) Term { return cmp("<", a[0], a[1]) }))
	reg("time.Time.Equal", nil, pureInt(func(vc *VC, a []Term) Term { return eq(a[0], a[1]) }))
	reg("time.Time.IsZero", nil, pureInt(func(vc *VC, a []Term) Term { return eq(a[0], "TimeZero") }))
	reg("time.Time.UTC", nil, pureInt(func(vc *VC, a []Term) Term { return a[0] }))
	reg("time.Time.Local", nil, pureInt(func(vc *VC, a []Term) Term { return a[0] }))
	reg("time.Time.UnixNano", nil, pureInt(func(vc *VC, a []Term) Term { return a[0] }))
	reg("time.Time.Unix", nil, pureInt(func(vc *VC, a []Term) Term { return "(div " + a[0] + " 1000000000)" }))
	reg("time.Time.UnixMilli", nil, pureInt(func(vc *VC, a []Term) Term { return "(div " + a[0] + " 1000000)" }))
	reg("time.Unix", nil, pureInt(func(vc *VC, a []Term) Term { return add(mul(a[0], "1000000000"), a[1]) }))
	reg("time.UnixMilli", nil, pureInt(func(vc *VC, a []Term) Term { return mul(a[0], "1000000") }))
	reg("time.Duration.Nanoseconds", nil, pureInt(func(vc *VC, a []Term) Term { return a[0] }))
	reg("time.Duration.Milliseconds", nil, pureInt(func(vc *VC, a []Term) Term { return "(tdiv " + a[0] + " 1000000)" }))
	reg("time.Duration.Seconds", nil, pureInt(func(vc *VC, a []Term) Term { return "(/ (to_real " + a[0] + ") 1000000000.0)" }))
	reg("time.Since", nil, func(fr *Frame, in ssa.Instruction, args []*Val, resT types.Type) (*Val, bool) {
		now := fr.vc.now(fr)
		return &Val{T: sub(now, fr.vc.term(args[0])), Typ: resT}, true
	})
	reg("time.Until", nil, func(fr *Frame, in ssa.Instruction, args []*Val, resT types.Type) (*Val, bool) {
		now := fr.vc.now(fr)
		return &Val{T: sub(fr.vc.term(args[0]), now), Typ: resT}, true
	})
	reg("time.Now", nil, func(fr *Frame, in ssa.Instruction, args []*Val, resT types.Type) (*Val, bool) {
		return &Val{T: fr.vc.now(fr), Typ: resT}, true
	})
	// --- encoding/binary ---
	for _, bo := range []struct {
		typ string
		be  bool
	}{{"bigEndian", true}, {"littleEndian", false}} {
		for _, w := range []int{2, 4, 8} {
			bo, w := bo, w
			fn := map[int]string{2: "16", 4: "32", 8: "64"}[w]
			pre := "le"
			if bo.be {
				pre = "be"
			}
			reg("encoding/binary."+bo.typ+".Uint"+fn, nil, func(fr *Frame, in ssa.Instruction, args []*Val, resT types.Type) (*Val, bool) {
				vc := fr.vc
				sp := vc.slice(args[1])
				fr.safety("bounds", in, cmp("<=", intLit64(int64(w)), sp.Len))
				arr := sel(fr.cur.Get(vc.memName(types.Typ[types.Byte])), sp.Base)
				arrC := vc.S.Define("bytes", "(Array Int Int)", arr)
				for i := 0; i < w; i++ {
					vc.S.Assert("(isbyte " + sel(arrC, add(sp.Off, intLit64(int64(i)))) + ")")
				}
				r := vc.S.Define(pre+fn, "Int", fmt.Sprintf("(%s%s %s %s)", pre, fn, arrC, sp.Off))
				return &Val{T: r, Typ: resT}, true
			})
			reg("encoding/binary."+bo.typ+".PutUint"+fn, []string{"bytes"}, func(fr *Frame, in ssa.Instruction, args []*Val, resT types.Type) (*Val, bool) {
				vc := fr.vc
				sp := vc.slice(args[1])
				v := vc.term(args[2])
				fr.safety("bounds", in, cmp("<=", intLit64(int64(w)), sp.Len))
				mn := vc.memName(types.Typ[types.Byte])
				mem := fr.cur.Get(mn)
				arr := sel(mem, sp.Base)
				// byte decomposition, stated linearly: v == sum b_k * 256^k with 0 <= b_k <= 255
				// (unique for 0 <= v < 2^(8w); equivalent to the div/mod form, far easier for the solvers)
				_, isLit := litVal(v)
				var bs []Term
				if !isLit {
					var sum []Term
					for k := 0; k < w; k++ {
						b := vc.S.FreshConst(fmt.Sprintf("byte%d", k), "Int")
						vc.S.Assert("(isbyte " + b + ")")
						bs = append(bs, b)
						sum = append(sum, mul(b, intLit(pow2(8*k))))
					}
					vc.S.Assert(eq(v, "(+ "+strings.Join(sum, " ")+")"))
				}
				for i := 0; i < w; i++ {
					shift := i
					if bo.be {
						shift = w - 1 - i
					}
					var b Term
					if lv, ok := litVal(v); ok {
						b = intLit(new(big.Int).And(new(big.Int).Rsh(lv, uint(8*shift)), big.NewInt(255)))
					} else {
						b = bs[shift]
					}
					arr = sto(arr, add(sp.Off, intLit64(int64(i))), b)
				}
				fr.cur.Set(mn, sto(mem, sp.Base, arr))
				fr.writeBackView(args[1])
				return &Val{T: "0", Typ: resT}, true
			})
		}
	}
	// --- sync ---
	lockOp := func(acquire bool) externHandler {
		return func(fr *Frame, in ssa.Instruction, args []*Val, resT types.Type) (*Val, bool) {
			fr.lockEvent(in, args[0], acquire)
			return &Val{T: "0", Typ: resT}, true
		}
	}
	for _, n := range []string{"sync.(*Mutex).Lock", "sync.(*RWMutex).Lock", "sync.(*RWMutex).RLock"} {
		reg(n, []string{}, lockOp(true))
	}
	for _, n := range []string{"sync.(*Mutex).Unlock", "sync.(*RWMutex).Unlock", "sync.(*RWMutex).RUnlock"} {
		reg(n, []string{}, lockOp(false))
	}
	noop := func(fr *Frame, in ssa.Instruction, args []*Val, resT types.Type) (*Val, bool) {
		return &Val{T: "0", Typ: resT}, true
	}
	for _, n := range []string{"sync.(*WaitGroup).Add", "sync.(*WaitGroup).Done", "sync.(*WaitGroup).Wait"} {
		reg(n, []string{}, noop)
	}
	// --- sync/atomic ---
	atomicRMW := func(f func(vc *VC, old Term, a []Term, t types.Type) (newv, res Term)) externHandler {
		return func(fr *Frame, in ssa.Instruction, args []*Val, resT types.Type) (*Val, bool) {
			vc := fr.vc
			p := vc.ptrOf(args[0])
			if p == nil {
				return nil, false
			}
			old := vc.loadPtr(p, fr.cur).T
			var ts []Term
			for _, a := range args[1:] {
				ts = append(ts, vc.term(a))
			}
			nv, res := f(vc, old, ts, resT)
			if nv != "" {
				vc.storePtr(p, fr.cur, nv)
			}
			if res == "" {
				return &Val{T: "0", Typ: resT}, true
			}
			return &Val{T: vc.S.Define("atomic", vc.sortOf(resT), res), Typ: resT}, true
		}
	}
	for _, ty := range []struct {
		n    string
		bits int
		sg   bool
	}{{"Uint64", 64, false}, {"Int64", 64, true}, {"Uint32", 32, false}, {"Int32", 32, true}} {
		ty := ty
		wrapT := func(t Term) Term {
			m := pow2(ty.bits)
			if !ty.sg {
				return modT(t, m)
			}
			half := pow2(ty.bits - 1)
			return sub(modT(add(t, intLit(half)), m), intLit(half))
		}
		reg("sync/atomic.(*"+ty.n+").Add", []string{"recv"}, atomicRMW(func(vc *VC, old Term, a []Term, t types.Type) (Term, Term) {
			nv := vc.S.Define("atomicnew", "Int", wrapT(add(old, a[0])))
			return nv, nv
		}))
		reg("sync/atomic.(*"+ty.n+").Load", nil, atomicRMW(func(vc *VC, old Term, a []Term, t types.Type) (Term, Term) { return "", old }))
		reg("sync/atomic.(*"+ty.n+").Store", []string{"recv"}, atomicRMW(func(vc *VC, old Term, a []Term, t types.Type) (Term, Term) { return a[0], "" }))
		reg("sync/atomic.(*"+ty.n+").Swap", []string{"recv"}, atomicRMW(func(vc *VC, old Term, a []Term, t types.Type) (Term, Term) { return a[0], old }))
		reg("sync/atomic.(*"+ty.n+").CompareAndSwap", []string{"recv"}, atomicRMW(func(vc *VC, old Term, a []Term, t types.Type) (Term, Term) {
			ok := eq(old, a[0])
			return ite(ok, a[1], old), ok
		}))
	}
	reg("sync/atomic.(*Value).Load", nil, atomicRMW(func(vc *VC, old Term, a []Term, t types.Type) (Term, Term) { return "", old }))
	reg("sync/atomic.(*Value).Store", []string{"recv"}, atomicRMW(func(vc *VC, old Term, a []Term, t types.Type) (Term, Term) { return a[0], "" }))
	reg("sync/atomic.(*Bool).Load", nil, atomicRMW(func(vc *VC, old Term, a []Term, t types.Type) (Term, Term) { return "", old }))
	reg("sync/atomic.(*Bool).Store", []string{"recv"}, atomicRMW(func(vc *VC, old Term, a []Term, t types.Type) (Term, Term) { return a[0], "" }))
	reg("sync/atomic.(*Bool).Swap", []string{"recv"}, atomicRMW(func(vc *VC, old Term, a []Term, t types.Type) (Term, Term) { return a[0], old }))
	reg("sync/atomic.(*Bool).CompareAndSwap", []string{"recv"}, atomicRMW(func(vc *VC, old Term, a []Term, t types.Type) (Term, Term) {
		ok := eq(old, a[0])
		return ite(ok, a[1], old), ok
	}))
	// --- bytes ---
	reg("bytes.Equal", nil, func(fr *Frame, in ssa.Instruction, args []*Val, resT types.Type) (*Val, bool) {
		vc := fr.vc
		a, b := vc.slice(args[0]), vc.slice(args[1])
		mem := fr.cur.Get(vc.memName(types.Typ[types.Byte]))
		aa := vc.S.Define("eqa", "(Array Int Int)", sel(mem, a.Base))
		bb := vc.S.Define("eqb", "(Array Int Int)", sel(mem, b.Base))
		r := vc.S.FreshConst("bytesEqual", "Bool")
		vc.S.Assert(eq(r, and(eq(a.Len, b.Len), fmt.Sprintf("(forall ((i Int)) (=> (and (<= 0 i) (< i %s)) (= (select %s (+ %s i)) (select %s (+ %s i)))))", a.Len, aa, a.Off, bb, b.Off))))
		return &Val{T: r, Typ: resT}, true
	})
}

// now returns a fresh time value not earlier than previously observed ones.
func (vc *VC) now(fr *Frame) Term {
	t := vc.S.FreshConst("now", "Int")
	if vc.lastNow != "" {
		vc.S.Assert(cmp(">=", t, vc.lastNow))
	}
	vc.lastNow = t
	vc.Assumptions["time.Now is monotone; time.Time is an unbounded integer count of nanoseconds (no saturation)"] = true
	return t
}

// lockEvent tracks the set of held mutexes. Re-acquiring a mutex that this
// function already released havocs the fields it guards (other threads may
// have run in between); the first acquisition sees the entry state, which is
// arbitrary anyway (lockset obligations ensure no guarded access precedes it).
func (fr *Frame) lockEvent(in ssa.Instruction, mu *Val, acquire bool) {
	vc := fr.vc
	if mu == nil || mu.P == nil {
		return
	}
	key := mu.P.Heap + "@" + mu.P.Ref
	if !acquire {
		fr.lockInvariant(in, mu, false)
		if fr.held[key] {
			delete(fr.held, key)
		} else {
			// released through a syntactically different reference: drop every lock of this mutex field
			for k := range fr.held {
				if strings.HasPrefix(k, mu.P.Heap+"@") {
					delete(fr.held, k)
				}
			}
		}
		return
	}
	fr.held[key] = true
	key = mu.P.Heap // re-acquisition is tracked per mutex field
	vc.acquired[key]++
	guarded := vc.guardedBy(mu.P.Heap)
	defer fr.lockInvariant(in, mu, true)
	if len(guarded) == 0 || vc.acquired[key] < 2 {
		return
	}
	only := map[string]bool{}
	var known []string
	for _, g := range guarded {
		if _, ok := vc.heapSorts[g]; ok {
			only[g] = true
			known = append(known, g)
		}
	}
	guarded = known
	pre := fr.cur
	post := pre.Havoc(only, "lk")
	for _, g := range guarded {
		if strings.HasPrefix(g, "G|") {
			continue
		}
		oldA, newA := pre.Get(g), post.Get(g)
		vc.S.Assert(fmt.Sprintf("(forall ((r Int)) (! (=> (not (= r %s)) (= (select %s r) (select %s r))) :pattern ((select %s r))))", mu.P.Ref, newA, oldA, newA))
	}
	fr.cur = post
	vc.Assumptions["lock regions are atomic; fields guarded by a mutex are havocked when the mutex is re-acquired within a function (other threads may have run)"] = true
}

// locksetCheck: an access to a field declared guarded must happen with its mutex held.
func (fr *Frame) locksetCheck(in ssa.Instruction, p *Ptr, what string) {
	vc := fr.vc
	if p == nil || p.Obj || fr.c == nil || !fr.c.Checks["lockset"] {
		return
	}
	mu, ok := vc.guardOf[p.Heap]
	if !ok {
		return
	}
	// objects allocated by this function are not yet shared
	for _, a := range vc.allocs {
		if a == p.Ref {
			return
		}
	}
	// semantic check: the object's mutex is one of those held (reference terms may differ syntactically)
	cond := heldFormula(fr.held, mu, p.Ref)
	ck := "lockset@" + FuncName(fr.fn)
	n := vc.callCount[ck]
	vc.callCount[ck] = n + 1
	pos := vc.P.SSA.Fset.Position(in.Pos())
	anchor := fmt.Sprintf("#%d", n)
	if fr.inlined {
		anchor = FuncName(fr.fn) + anchor
	}
	vc.addObl(&Obligation{Kind: "lockset", Anchor: anchor, Props: fr.c.Props, Desc: fmt.Sprintf("%s of %s at %s:%d happens with its mutex held", what, shortType(p.Heap), shortFile(pos.Filename), pos.Line),
		File: pos.Filename, Line: pos.Line, Goals: []Goal{{Reach: fr.here(), Cond: cond, Where: fmt.Sprintf("%s:%d", shortFile(pos.Filename), pos.Line)}}, Mark: vc.S.Mark()})
}

// guardedBy returns the heap names declared `guarded <mutexfield>: f1, f2` for the mutex field.
func (vc *VC) guardedBy(muHeap string) []string {
	return vc.guards[muHeap]
}

// lockInvariant assumes the declared invariant of a mutex after acquiring it and
// generates the obligation to re-establish it before releasing it.
func (fr *Frame) lockInvariant(in ssa.Instruction, mu *Val, acquire bool) {
	vc := fr.vc
	if fr.c == nil {
		return
	}
	for k, li := range vc.P.CS.LockInvs {
		// mutex heap name: F|<pkg>.<Type>|<field>
		j := strings.LastIndex(li.Mutex, ".")
		if j < 0 {
			continue
		}
		hn := "F|" + li.Pkg + "." + li.Mutex[:j] + "|" + li.Mutex[j+1:]
		if hn != mu.P.Heap {
			continue
		}
		t, err := vc.P.ResolveType(li.Pkg, "*"+li.Mutex[:j])
		if err != nil {
			continue
		}
		env := fr.specEnvHere()
		env.bound[li.Recv] = &Val{T: mu.P.Ref, Typ: t}
		cond := env.evalBool(li.Cl.E)
		if acquire {
			fr.assume(cond)
			vc.Assumptions["other threads re-establish every declared lock invariant before releasing the mutex (rely); this code is proved to do the same (guarantee)"] = true
			continue
		}
		ck := "lockinv@" + FuncName(fr.fn)
		n := vc.callCount[ck]
		vc.callCount[ck] = n + 1
		pos := vc.P.SSA.Fset.Position(in.Pos())
		_ = k
		anchor := fmt.Sprintf("#%d/%s", n, li.Mutex) // named after the mutex: stable under added invariants elsewhere
		if fr.inlined {
			anchor = FuncName(fr.fn) + anchor
		}
		vc.addObl(&Obligation{Kind: "lockinv", Anchor: anchor, Props: fr.c.Props, Desc: fmt.Sprintf("invariant of %s holds at release: %s (%s:%d)", li.Mutex, li.Cl.Src, shortFile(pos.Filename), pos.Line),
			File: pos.Filename, Line: pos.Line, Goals: []Goal{{Reach: fr.here(), Cond: cond, Where: fmt.Sprintf("%s:%d", shortFile(pos.Filename), pos.Line)}}, Mark: vc.S.Mark()})
	}
}

// heldFormula: "ref's mutex (field muHeap) is among the held locks".
func heldFormula(held map[string]bool, muHeap string, ref Term) Term {
	var alts []Term
	for k := range held {
		if strings.HasPrefix(k, muHeap+"@") {
			alts = append(alts, eq(ref, k[len(muHeap)+1:]))
		}
	}
	sort.Strings(alts)
	return or(alts...)
}
