package vc

import (
	"strings"

	"golang.org/x/tools/go/ssa"
)

// NonNilGlobals: package-level error variables initialised with errors.New /
// fmt.Errorf in the package initialiser and never assigned anywhere else.
func (p *Prog) NonNilGlobals() map[string]bool {
	if p.nonNil != nil {
		return p.nonNil
	}
	p.nonNil = map[string]bool{}
	stores := map[*ssa.Global]int{}
	initOK := map[*ssa.Global]bool{}
	for path, sp := range p.SSAPkg {
		if !strings.HasPrefix(path, ModPath) {
			continue
		}
		var fns []*ssa.Function
		for _, m := range sp.Members {
			if f, ok := m.(*ssa.Function); ok {
				fns = append(fns, f)
			}
		}
		for key, f := range p.Funcs {
			if strings.HasPrefix(key, path+"::") {
				fns = append(fns, f)
			}
		}
		seen := map[*ssa.Function]bool{}
		for _, f := range fns {
			if seen[f] || f.Blocks == nil {
				continue
			}
			seen[f] = true
			for _, b := range f.Blocks {
				for _, in := range b.Instrs {
					st, ok := in.(*ssa.Store)
					if !ok {
						continue
					}
					g, ok := st.Addr.(*ssa.Global)
					if !ok {
						continue
					}
					stores[g]++
					if f.Name() == "init" {
						if call, ok := st.Val.(*ssa.Call); ok {
							if cf, ok := call.Call.Value.(*ssa.Function); ok {
								n := QualName(cf)
								if n == "errors.New" || n == "fmt.Errorf" {
									initOK[g] = true
								}
							}
						}
					}
				}
			}
		}
	}
	for g, ok := range initOK {
		if ok && stores[g] == 1 {
			p.nonNil["G|"+g.Pkg.Pkg.Path()+"."+g.Name()] = true
		}
	}
	return p.nonNil
}
