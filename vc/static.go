package vc

import (
	"go/ast"
	"fmt"
	"go/constant"
	"io/fs"
	"os"
	"path/filepath"
	"regexp"
	"sort"
	"strconv"
	"strings"

	"golang.org/x/tools/go/ssa"
)

// StaticDecl: obligations decided by scanning the SSA, without a solver.
//
//	mapinit  <globalMap> = "k1", "k2", ...   : the map literal has exactly these keys (value true) and is never written elsewhere
//	callsonly <func>: callee1, callee2       : the function calls nothing but the listed callees
type StaticDecl struct {
	Kind, Pkg, Subject string
	Items              []string
	Props              []string
	Line               int
}

func parseStaticDecl(kind, rest string) (*StaticDecl, error) {
	sep := "="
	if kind == "callsonly" || kind == "mapwritesonly" || kind == "mapdeletesonly" || kind == "fieldwritesonly" {
		sep = ":"
	}
	i := strings.Index(rest, sep)
	if i < 0 {
		return nil, fmt.Errorf("%s <subject> %s item, item", kind, sep)
	}
	d := &StaticDecl{Kind: kind, Subject: strings.TrimSpace(rest[:i])}
	for _, it := range splitTop(rest[i+1:]) {
		it = strings.TrimSpace(it)
		if it == "" || it == "-" {
			continue
		}
		if kind == "mapinit" {
			u, err := strconv.Unquote(it)
			if err != nil {
				return nil, fmt.Errorf("mapinit key %s: %v", it, err)
			}
			it = u
		}
		d.Items = append(d.Items, it)
	}
	sort.Strings(d.Items)
	return d, nil
}

func (p *Prog) StaticObligations(prop string) []*Obligation {
	var out []*Obligation
	for _, d := range p.CS.Statics {
		if !hasStr(d.Props, prop) {
			continue
		}
		o := &Obligation{ID: shortPkgPath(d.Pkg) + ":" + d.Kind + ":" + d.Subject, Props: d.Props, Kind: "census", Pkg: d.Pkg, Static: true, Solver: "ssa scan"}
		var got []string
		ok := true
		switch d.Kind {
		case "mapinit":
			sp := p.SSAPkg[d.Pkg]
			writesElsewhere := 0
			if sp != nil {
				for key, f := range p.Funcs {
					if !strings.HasPrefix(key, d.Pkg+"::") || f.Blocks == nil {
						continue
					}
					for _, b := range f.Blocks {
						for _, in := range b.Instrs {
							switch x := in.(type) {
							case *ssa.Store:
								if g, isG := x.Addr.(*ssa.Global); isG && g.Name() == d.Subject && f.Name() != "init" {
									writesElsewhere++
								}
							case *ssa.MapUpdate:
								if loadsGlobal(x.Map, d.Subject) && f.Name() != "init" {
									writesElsewhere++
								}
							case *ssa.Call:
								if bi, isB := x.Call.Value.(*ssa.Builtin); isB && bi.Name() == "delete" && len(x.Call.Args) > 0 && loadsGlobal(x.Call.Args[0], d.Subject) {
									writesElsewhere++
								}
							}
						}
					}
				}
				if initf := sp.Func("init"); initf != nil {
					// the literal: MakeMap stored to the global, MapUpdates on that MakeMap
					for _, b := range initf.Blocks {
						for _, in := range b.Instrs {
							mu, isMU := in.(*ssa.MapUpdate)
							if !isMU {
								continue
							}
							mm, isMM := mu.Map.(*ssa.MakeMap)
							if !isMM || !storedToGlobal(mm, d.Subject) {
								continue
							}
							k, kok := mu.Key.(*ssa.Const)
							v, vok := mu.Value.(*ssa.Const)
							if !kok || !vok || k.Value == nil || k.Value.Kind() != constant.String || v.Value == nil || v.Value.Kind() != constant.Bool || !constant.BoolVal(v.Value) {
								ok = false
								continue
							}
							got = append(got, constant.StringVal(k.Value))
						}
					}
				}
			}
			if writesElsewhere > 0 {
				ok = false
			}
		case "mapwritesonly", "mapdeletesonly":
			// Subject "Type.field": functions that update or delete entries of that map field
			// (mapdeletesonly: functions that delete or clear entries, or replace the whole map)
			parts := strings.SplitN(d.Subject, ".", 2)
			if len(parts) != 2 {
				ok = false
				break
			}
			seenF := map[string]bool{}
			isField := func(v ssa.Value) bool {
				u, isU := v.(*ssa.UnOp)
				if !isU {
					return false
				}
				fa, isFA := u.X.(*ssa.FieldAddr)
				if !isFA {
					return false
				}
				t, st := structOf(fa.X.Type())
				return st != nil && typeBase(t) == parts[0] && st.Field(fa.Field).Name() == parts[1]
			}
			for key, f := range p.Funcs {
				if !strings.HasPrefix(key, d.Pkg+"::") || f.Blocks == nil {
					continue
				}
				for _, b := range f.Blocks {
					for _, in := range b.Instrs {
						switch x := in.(type) {
						case *ssa.MapUpdate:
							if isField(x.Map) && d.Kind == "mapwritesonly" {
								seenF[FuncName(f)] = true
							}
						case *ssa.Store:
							// the field itself is overwritten (a new, empty map): every entry is dropped
							if d.Kind == "mapdeletesonly" {
								if fa, isFA := x.Addr.(*ssa.FieldAddr); isFA {
									t, st := structOf(fa.X.Type())
									if st != nil && typeBase(t) == parts[0] && st.Field(fa.Field).Name() == parts[1] {
										seenF[FuncName(f)] = true
									}
								}
							}
						case *ssa.Call:
							if bi, isB := x.Call.Value.(*ssa.Builtin); isB && (bi.Name() == "delete" || bi.Name() == "clear") && len(x.Call.Args) > 0 && isField(x.Call.Args[0]) {
								seenF[FuncName(f)] = true
							}
						}
					}
				}
			}
			for n := range seenF {
				got = append(got, n)
			}
		case "fieldwritesonly":
			// Subject "Type.field": functions of the declaring package that store to that field; other
			// packages of the repository must not mention the field on the left of an assignment at all.
			parts := strings.SplitN(d.Subject, ".", 2)
			if len(parts) != 2 {
				ok = false
				break
			}
			seenF := map[string]bool{}
			for key, f := range p.Funcs {
				if !strings.HasPrefix(key, d.Pkg+"::") || f.Blocks == nil {
					continue
				}
				for _, b := range f.Blocks {
					for _, in := range b.Instrs {
						st, isSt := in.(*ssa.Store)
						if !isSt {
							continue
						}
						fa, isFA := st.Addr.(*ssa.FieldAddr)
						if !isFA {
							continue
						}
						t, stt := structOf(fa.X.Type())
						if stt != nil && typeBase(t) == parts[0] && stt.Field(fa.Field).Name() == parts[1] {
							seenF[FuncName(f)] = true
						}
					}
				}
			}
			for n := range seenF {
				got = append(got, n)
			}
			// an unexported field cannot be named outside its package (Go visibility): no foreign scan
			if ast.IsExported(parts[1]) {
				for _, hit := range p.foreignFieldWrites(d.Pkg, parts[1]) {
					got = append(got, "foreign:"+hit)
				}
			}
		case "callsonly":
			f := p.Funcs[d.Pkg+"::"+d.Subject]
			if f == nil || f.Blocks == nil {
				ok = false
				break
			}
			seen := map[string]bool{}
			for _, b := range f.Blocks {
				for _, in := range b.Instrs {
					ci, isC := in.(ssa.CallInstruction)
					if !isC {
						continue
					}
					cc := ci.Common()
					if _, isB := cc.Value.(*ssa.Builtin); isB {
						continue
					}
					var callee *ssa.Function
					switch v := cc.Value.(type) {
					case *ssa.Function:
						callee = v
					case *ssa.MakeClosure:
						callee = v.Fn.(*ssa.Function)
					}
					seen[calleeName(cc, callee)] = true
				}
			}
			for n := range seen {
				got = append(got, n)
			}
		}
		sort.Strings(got)
		o.Desc = fmt.Sprintf("%s %s: expected {%s}, found {%s}", d.Kind, d.Subject, strings.Join(d.Items, ", "), strings.Join(got, ", "))
		if ok && strings.Join(got, "\x00") == strings.Join(d.Items, "\x00") {
			o.Status = "proved"
		} else {
			o.Status = "refuted"
			o.Output = o.Desc
		}
		out = append(out, o)
	}
	return out
}

func loadsGlobal(v ssa.Value, name string) bool {
	if u, ok := v.(*ssa.UnOp); ok {
		if g, ok := u.X.(*ssa.Global); ok && g.Name() == name {
			return true
		}
	}
	return false
}

func storedToGlobal(mm *ssa.MakeMap, name string) bool {
	refs := mm.Referrers()
	if refs == nil {
		return false
	}
	for _, r := range *refs {
		if st, ok := r.(*ssa.Store); ok && st.Val == ssa.Value(mm) {
			if g, ok := st.Addr.(*ssa.Global); ok && g.Name() == name {
				return true
			}
		}
	}
	return false
}

// foreignFieldWrites scans the non-test Go files of the repository outside pkg for assignments to
// (or composite-literal initialisations of) a field with the given name. Textual, conservative.
func (p *Prog) foreignFieldWrites(pkg, field string) []string {
	re := regexp.MustCompile(`(\.` + regexp.QuoteMeta(field) + `\s*(=[^=]|\+\+|--|[-+|&^]=))|(\b` + regexp.QuoteMeta(field) + `\s*:[^=])`)
	own := filepath.Join(p.RepoDir, strings.TrimPrefix(pkg, ModPath+"/"))
	var hits []string
	filepath.WalkDir(p.RepoDir, func(path string, de fs.DirEntry, err error) error {
		if err != nil {
			return nil
		}
		if de.IsDir() {
			if de.Name() == ".git" || path == own {
				return filepath.SkipDir
			}
			return nil
		}
		if !strings.HasSuffix(path, ".go") || strings.HasSuffix(path, "_test.go") {
			return nil
		}
		b, err := os.ReadFile(path)
		if err != nil {
			return nil
		}
		for i, line := range strings.Split(string(b), "\n") {
			if t := strings.TrimSpace(line); strings.HasPrefix(t, "//") {
				continue
			}
			if re.MatchString(line) {
				hits = append(hits, fmt.Sprintf("%s:%d", strings.TrimPrefix(path, p.RepoDir+"/"), i+1))
			}
		}
		return nil
	})
	return hits
}
