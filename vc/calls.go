package vc

import (
	"fmt"
	"go/types"
	"strings"

	"golang.org/x/tools/go/ssa"
)

func (fr *Frame) call(x *ssa.Call) *Val { return fr.callCommon(x, x.Common()) }

func (fr *Frame) goStmt(x *ssa.Go) {
	// the goroutine's effects are not sequenced; its precondition is checked here
	vc := fr.vc
	cc := x.Common()
	callee, args, closure := fr.resolveCallee(cc)
	if callee != nil {
		if c := vc.P.ContractFor(callee); c != nil && len(c.Requires) > 0 {
			fr.checkPreClosure(x, callee, c, args, "go ", closure)
		}
	}
	fr.atCallAsserts(x, cc, args, callee)
	vc.drop("go-statement-effects")
}

// resolveCallee returns the static callee (if any) and the argument values
// (receiver first for methods; closure bindings are handled by the caller).
func (fr *Frame) resolveCallee(cc *ssa.CallCommon) (*ssa.Function, []*Val, *Val) {
	var args []*Val
	if cc.IsInvoke() {
		args = append(args, fr.val(cc.Value))
		for _, a := range cc.Args {
			args = append(args, fr.val(a))
		}
		return nil, args, nil
	}
	for _, a := range cc.Args {
		args = append(args, fr.val(a))
	}
	switch f := cc.Value.(type) {
	case *ssa.Function:
		return f, args, nil
	case *ssa.MakeClosure:
		return f.Fn.(*ssa.Function), args, fr.val(f)
	}
	fv := fr.val(cc.Value)
	if fv != nil && fv.Fn != nil {
		return fv.Fn, args, fv
	}
	return nil, args, nil
}

// CurProp is the property being checked in this run (set by the driver).
var CurProp string

func calleeName(cc *ssa.CallCommon, callee *ssa.Function) string {
	if cc.IsInvoke() {
		recv := cc.Value.Type()
		return typeQual(recv) + "." + cc.Method.Name()
	}
	if callee != nil {
		return QualName(callee)
	}
	if b, ok := cc.Value.(*ssa.Builtin); ok {
		return "builtin." + b.Name()
	}
	// call through a function-typed field: name it after the field
	if u, ok := cc.Value.(*ssa.UnOp); ok {
		if fa, ok := u.X.(*ssa.FieldAddr); ok {
			if _, st := structOf(fa.X.Type()); st != nil {
				return "dynamic." + st.Field(fa.Field).Name()
			}
		}
	}
	return "dynamic." + cc.Value.Name()
}

func typeQual(t types.Type) string {
	t = types.Unalias(t)
	if n, ok := t.(*types.Named); ok {
		if n.Obj().Pkg() != nil {
			return n.Obj().Pkg().Path() + "." + n.Obj().Name()
		}
		return n.Obj().Name()
	}
	return t.String()
}

func (fr *Frame) callCommon(in ssa.Instruction, cc *ssa.CallCommon) *Val {
	var resT types.Type = cc.Signature().Results()
	if cc.Signature().Results().Len() == 1 {
		resT = cc.Signature().Results().At(0).Type()
	}
	if b, ok := cc.Value.(*ssa.Builtin); ok {
		var args []*Val
		for _, a := range cc.Args {
			args = append(args, fr.val(a))
		}
		// guards can be stated at a builtin when the pattern names it in full ("builtin.delete")
		if fr.c != nil {
			for _, ac := range fr.c.AtCalls {
				if strings.HasPrefix(ac.Callee, "builtin.") && !ac.After {
					fr.atCallAsserts(in, cc, args, nil)
					break
				}
			}
		}
		return fr.builtin(in, b, args, resT)
	}
	callee, args, closure := fr.resolveCallee(cc)
	name := calleeName(cc, callee)
	fr.atCallAsserts(in, cc, args, callee)
	if fr.c != nil && len(fr.c.AtCalls) > 0 {
		r := fr.callDispatch(in, cc, callee, args, closure, name, resT)
		fr.afterCall(in, cc, args, callee, r)
		return r
	}
	return fr.callDispatch(in, cc, callee, args, closure, name, resT)
}

func (fr *Frame) callDispatch(in ssa.Instruction, cc *ssa.CallCommon, callee *ssa.Function, args []*Val, closure *Val, name string, resT types.Type) *Val {
	vc := fr.vc
	// Go-side models of well-known library functions
	if h, ok := externHandlers[name]; ok {
		if r, handled := h(fr, in, args, resT); handled {
			vc.Trusted["model:"+name] = true
			return r
		}
	}
	var c *Contract
	if callee != nil {
		c = vc.P.ContractFor(callee)
	} else if cc.IsInvoke() {
		c = vc.P.CS.ByKey[ifaceKey(cc)]
	}
	if fr.c != nil && callee != nil && callee.Blocks != nil && fr.depth < 4 {
		for _, pat := range fr.c.InlineCalls {
			if !calleeMatches(name, pat) {
				continue
			}
			// the callee's body is executed here; of its contract only the loop annotations are used
			// (its own safety and pre/postconditions are obligations of the callee, proved there)
			var ic *Contract
			if c != nil {
				cp := *c
				cp.Checks, cp.Requires, cp.Ensures, cp.TrustedEnsures = map[string]bool{}, nil, nil, nil
				cp.AtCalls, cp.GhostSets, cp.GhostInits, cp.AllocLimit, cp.InlineCalls = nil, nil, nil, nil, fr.c.InlineCalls
				ic = &cp
			}
			return fr.inline(in, callee, ic, args, closure)
		}
	}
	if c != nil {
		if c.Inline && callee != nil && callee.Blocks != nil && fr.depth < 4 {
			return fr.inline(in, callee, c, args, closure)
		}
		return fr.applyContract(in, callee, cc, c, args, resT)
	}
	// small in-repo leaf functions without a contract: inline automatically when cheap
	if callee != nil && callee.Blocks != nil && strings.HasPrefix(QualNamePkg(callee), ModPath) && fr.depth < 3 && autoInlinable(callee) {
		return fr.inline(in, callee, nil, args, closure)
	}
	// a context.CancelFunc obtained from package context releases timer resources only
	if callee == nil && !cc.IsInvoke() {
		if n, ok := types.Unalias(cc.Value.Type()).(*types.Named); ok && n.Obj().Pkg() != nil && n.Obj().Pkg().Path() == "context" && n.Obj().Name() == "CancelFunc" {
			vc.Trusted["model: calling a context.CancelFunc changes no program state"] = true
			return &Val{T: "0", Typ: resT}
		}
	}
	// unknown callee: havoc
	return fr.unknownCall(in, name, args, resT)
}

func QualNamePkg(f *ssa.Function) string {
	if f.Pkg != nil {
		return f.Pkg.Pkg.Path()
	}
	return ""
}

func ifaceKey(cc *ssa.CallCommon) string {
	t := types.Unalias(cc.Value.Type())
	if n, ok := t.(*types.Named); ok && n.Obj().Pkg() != nil {
		return n.Obj().Pkg().Path() + "::" + n.Obj().Name() + "." + cc.Method.Name()
	}
	return "?::" + cc.Method.Name()
}

// autoInlinable: loop-free, call-free (except builtins), small.
func autoInlinable(f *ssa.Function) bool {
	n := 0
	for _, b := range f.Blocks {
		for _, s := range b.Succs {
			if s.Dominates(b) {
				return false
			}
		}
		for _, in := range b.Instrs {
			n++
			switch x := in.(type) {
			case *ssa.Call:
				if _, ok := x.Call.Value.(*ssa.Builtin); !ok {
					if sf, ok := x.Call.Value.(*ssa.Function); ok {
						if _, known := externHandlers[QualName(sf)]; known {
							continue
						}
					}
					return false
				}
			case *ssa.Go, *ssa.Defer, *ssa.Select, *ssa.Send, *ssa.MakeClosure:
				return false
			}
		}
	}
	return n <= 60
}

func (fr *Frame) unknownCall(in ssa.Instruction, name string, args []*Val, resT types.Type) *Val {
	vc := fr.vc
	vc.drop("havoc-call:" + shortType(name))
	pure := knownPure[name] || strings.HasPrefix(name, "encoding/hex.") || strings.HasSuffix(name, "/internal/identity.AgentID.ShortString") || strings.HasSuffix(name, "/internal/identity.AgentID.String") || strings.HasPrefix(name, "fmt.") || strings.HasPrefix(name, "errors.") || strings.HasPrefix(name, "log/slog.") || strings.HasPrefix(name, "(*log/slog.") || strings.Contains(name, "log/slog.(*Logger)") || strings.Contains(name, "/internal/logging.") || strings.Contains(name, "/internal/recovery.")
	if !pure {
		pre := fr.cur
		vc.drop("whole-heap-havoc-by:" + shortType(name))
		fr.cur = fr.cur.Havoc(nil, "c")
		fr.preserveUnescaped(pre, fr.cur)
		for _, a := range args {
			fr.writeBackViewHavoc(a)
		}
	}
	r := vc.freshTuple("ret."+mangle(shortName(name)), resT)
	if pure {
		fr.cur = fr.cur.Havoc(map[string]bool{"$alloc": true}, "a")
	}
	fr.resultsAllocated(r)
	// fmt.Errorf / errors.New return non-nil errors
	if name == "fmt.Errorf" || name == "errors.New" {
		fr.assume(not(eq("(if-tag "+r.T+")", "0")))
	}
	return r
}

var knownPure = map[string]bool{}

func shortName(n string) string {
	if i := strings.LastIndex(n, "/"); i >= 0 {
		return n[i+1:]
	}
	return n
}

func (fr *Frame) writeBackViewHavoc(a *Val) {
	if a != nil && a.View != nil {
		fr.writeBackView(a)
	}
}

// callWrites over-approximates the heap names a call may write (for loop havoc).
func (fr *Frame) callWrites(x ssa.CallInstruction) ([]string, bool) {
	vc := fr.vc
	cc := x.Common()
	if b, ok := cc.Value.(*ssa.Builtin); ok {
		switch b.Name() {
		case "append", "copy":
			if len(cc.Args) > 0 {
				if st, ok := cc.Args[0].Type().Underlying().(*types.Slice); ok {
					return []string{vc.memName(st.Elem()), "$alloc"}, false
				}
			}
			return nil, false
		case "delete":
			mt := cc.Args[0].Type().Underlying().(*types.Map)
			d, v := vc.mapNames(mt)
			return []string{d, v, "ML"}, false
		}
		return nil, false
	}
	var callee *ssa.Function
	switch f := cc.Value.(type) {
	case *ssa.Function:
		callee = f
	case *ssa.MakeClosure:
		callee = f.Fn.(*ssa.Function)
	}
	name := calleeName(cc, callee)
	if w, ok := externWrites[name]; ok {
		var out []string
		for _, spec := range w {
			switch spec {
			case "bytes":
				out = append(out, vc.memName(types.Typ[types.Byte]))
			case "alloc":
				out = append(out, "$alloc")
			case "recv":
				// receiver cell (atomics, mutexes): names derived from the address expression
				if len(cc.Args) > 0 {
					out = append(out, fr.staticHeapNames(cc.Args[0])...)
				}
			}
		}
		return out, false
	}
	var c *Contract
	if callee != nil {
		c = vc.P.ContractFor(callee)
	} else if cc.IsInvoke() {
		c = vc.P.CS.ByKey[ifaceKey(cc)]
	}
	if c != nil && !c.ModAll && !c.Inline {
		names := fr.modNamesStatic(c, callee, cc)
		return names, false
	}
	if callee != nil && callee.Blocks != nil && (c != nil && c.Inline || autoInlinable(callee)) {
		// writes of the inlined body
		var out []string
		all := false
		for _, b := range callee.Blocks {
			for _, in := range b.Instrs {
				switch y := in.(type) {
				case *ssa.Store:
					sub := vc.newFrame(callee, nil, fr.depth+1)
					for _, n := range sub.staticHeapNames(y.Addr) {
						if n == "*" {
							all = true
						}
						out = append(out, n)
					}
				case *ssa.MapUpdate:
					mt := y.Map.Type().Underlying().(*types.Map)
					d, v := vc.mapNames(mt)
					out = append(out, d, v, "ML")
				case ssa.CallInstruction:
					sub := vc.newFrame(callee, nil, fr.depth+1)
					ns, a := sub.callWrites(y)
					out = append(out, ns...)
					all = all || a
				case *ssa.Alloc, *ssa.MakeSlice, *ssa.MakeMap:
					out = append(out, "$alloc")
					if ms, ok := in.(*ssa.MakeSlice); ok {
						out = append(out, vc.memName(ms.Type().Underlying().(*types.Slice).Elem()))
					}
					if al, ok := in.(*ssa.Alloc); ok {
						out = append(out, vc.namesOfType(al.Type().(*types.Pointer).Elem())...)
					}
				}
			}
		}
		return out, all
	}
	if knownPure[name] || strings.HasPrefix(name, "fmt.") || strings.HasPrefix(name, "errors.") || strings.Contains(name, "log/slog") || strings.Contains(name, "/internal/logging.") || strings.Contains(name, "/internal/recovery.") {
		return nil, false
	}
	return nil, true
}

// modNamesStatic: heap names named by a contract's modifies clauses (type-level).
func (fr *Frame) modNamesStatic(c *Contract, callee *ssa.Function, cc *ssa.CallCommon) []string {
	vc := fr.vc
	var out []string
	env := vc.calleeTypeEnv(c, callee, cc)
	for _, m := range c.Modifies {
		// contents(p) with p a pointer parameter: the memory written is whatever the ARGUMENT points into
		// (a field of a struct value, an element of a slice), not the callee-side generic cell heap
		if callee != nil {
			if k := contentsPtrParam(m.E, callee); k >= 0 && k < len(cc.Args) {
				out = append(out, fr.staticHeapNames(cc.Args[k])...)
				continue
			}
		}
		out = append(out, env.modNames(m.E)...)
	}
	out = append(out, "$alloc")
	return out
}

// ---------- builtins ----------

func (fr *Frame) builtin(in ssa.Instruction, b *ssa.Builtin, args []*Val, resT types.Type) *Val {
	vc := fr.vc
	switch b.Name() {
	case "len":
		a := args[0]
		switch t := a.Typ.Underlying().(type) {
		case *types.Slice:
			return &Val{T: vc.slice(a).Len, Typ: resT}
		case *types.Basic:
			return &Val{T: "(str-len " + vc.term(a) + ")", Typ: resT}
		case *types.Array:
			return &Val{T: intLit64(t.Len()), Typ: resT}
		case *types.Pointer:
			if arr, ok := t.Elem().Underlying().(*types.Array); ok {
				return &Val{T: intLit64(arr.Len()), Typ: resT}
			}
		case *types.Map:
			vc.regHeap("ML", "(Array Int Int)")
			m := vc.term(a)
			r := vc.S.Define("maplen", "Int", ite(eq(m, "0"), "0", sel(fr.cur.Get("ML"), m)))
			vc.S.Assert(cmp(">=", r, "0"))
			return &Val{T: r, Typ: resT}
		case *types.Chan:
			r := vc.fresh("chanlen", resT)
			vc.S.Assert(cmp(">=", r.T, "0"))
			return r
		}
	case "cap":
		if _, ok := args[0].Typ.Underlying().(*types.Slice); ok {
			return &Val{T: vc.slice(args[0]).Cap, Typ: resT}
		}
		r := vc.fresh("cap", resT)
		vc.S.Assert(cmp(">=", r.T, "0"))
		return r
	case "copy":
		return fr.builtinCopy(in, args, resT)
	case "append":
		return fr.builtinAppend(in, args, resT)
	case "delete":
		fr.mapDelete(args[0], args[1])
		return &Val{T: "0", Typ: resT}
	case "panic":
		return &Val{T: "0", Typ: resT}
	case "recover":
		return &Val{T: "(mk-iface 0 0)", Typ: resT}
	case "min", "max":
		op := "<="
		if b.Name() == "max" {
			op = ">="
		}
		t := vc.term(args[0])
		for _, a := range args[1:] {
			u := vc.term(a)
			t = ite(cmp(op, t, u), t, u)
		}
		return &Val{T: vc.S.Define("minmax", "Int", t), Typ: resT}
	case "print", "println", "close", "clear":
		if b.Name() == "clear" {
			vc.drop("clear")
			fr.cur = fr.cur.Havoc(nil, "clear")
		}
		return &Val{T: "0", Typ: resT}
	}
	vc.drop("builtin-" + b.Name())
	return vc.freshTuple("builtin", resT)
}

func (fr *Frame) builtinCopy(in ssa.Instruction, args []*Val, resT types.Type) *Val {
	vc := fr.vc
	dst := vc.slice(args[0])
	elem := args[0].Typ.Underlying().(*types.Slice).Elem()
	mn := vc.memName(elem)
	es := vc.sortOf(elem)
	mem := fr.cur.Get(mn)
	var srcLen Term
	var srcAt func(i Term) Term
	if _, isStr := args[1].Typ.Underlying().(*types.Basic); isStr {
		s := vc.term(args[1])
		srcLen = "(str-len " + s + ")"
		srcAt = func(i Term) Term { return "(str-at " + s + " " + i + ")" }
	} else {
		src := vc.slice(args[1])
		srcLen = src.Len
		sarr := vc.S.Define("copysrc", "(Array Int "+es+")", sel(mem, src.Base))
		srcAt = func(i Term) Term { return sel(sarr, add(src.Off, i)) }
	}
	n := vc.S.Define("copyn", "Int", ite(cmp("<=", dst.Len, srcLen), dst.Len, srcLen))
	old := sel(mem, dst.Base)
	var newArr Term
	if nv, ok := litVal(n); ok && nv.IsInt64() && nv.Int64() <= 64 {
		newArr = old
		for i := int64(0); i < nv.Int64(); i++ {
			newArr = sto(newArr, add(dst.Off, intLit64(i)), srcAt(intLit64(i)))
		}
	} else {
		oldC := vc.S.Define("copyold", "(Array Int "+es+")", old)
		na := vc.S.FreshConst("copydst", "(Array Int "+es+")")
		vc.S.Assert(fmt.Sprintf("(forall ((j Int)) (! (= (select %s j) (ite (and (<= %s j) (< j (+ %s %s))) %s (select %s j))) :pattern ((select %s j))))",
			na, dst.Off, dst.Off, n, srcAt(sub("j", dst.Off)), oldC, na))
		newArr = na
	}
	fr.cur.Set(mn, sto(mem, dst.Base, newArr))
	fr.writeBackView(args[0])
	return &Val{T: n, Typ: resT}
}

func (fr *Frame) builtinAppend(in ssa.Instruction, args []*Val, resT types.Type) *Val {
	vc := fr.vc
	st := args[0].Typ.Underlying().(*types.Slice)
	elem := st.Elem()
	es := vc.sortOf(elem)
	mn := vc.memName(elem)
	s := vc.slice(args[0])
	var addLen Term
	var addAt func(i Term) Term
	mem := fr.cur.Get(mn)
	if _, isStr := args[1].Typ.Underlying().(*types.Basic); isStr {
		str := vc.term(args[1])
		addLen = "(str-len " + str + ")"
		addAt = func(i Term) Term { return "(str-at " + str + " " + i + ")" }
	} else {
		e := vc.slice(args[1])
		addLen = e.Len
		earr := vc.S.Define("appsrc", "(Array Int "+es+")", sel(mem, e.Base))
		addAt = func(i Term) Term { return sel(earr, add(e.Off, i)) }
	}
	newLen := vc.S.Define("applen", "Int", add(s.Len, addLen))
	inplace := vc.S.Define("appinplace", "Bool", and(cmp("<=", newLen, s.Cap), not(eq(s.Base, "0"))))
	fresh := fr.alloc(types.NewArray(elem, 0), "append")
	rb := vc.S.Define("appbase", "Int", ite(inplace, s.Base, fresh.T))
	roff := vc.S.Define("appoff", "Int", ite(inplace, s.Off, "0"))
	ncap := vc.S.FreshConst("appcap", "Int")
	vc.S.Assert(and(cmp(">=", ncap, newLen), implies(inplace, eq(ncap, s.Cap))))
	mem = fr.cur.Get(mn)
	oldArr := vc.S.Define("appold", "(Array Int "+es+")", sel(mem, s.Base))
	na := vc.S.FreshConst("apparr", "(Array Int "+es+")")
	if lv, ok := litVal(addLen); ok && lv.IsInt64() && lv.Int64() <= 8 {
		// small append: in-place case is explicit stores
		ip := oldArr
		for i := int64(0); i < lv.Int64(); i++ {
			ip = sto(ip, add(add(s.Off, s.Len), intLit64(i)), addAt(intLit64(i)))
		}
		vc.S.Assert(implies(inplace, eq(na, ip)))
		conj := []Term{}
		for i := int64(0); i < lv.Int64(); i++ {
			conj = append(conj, eq(sel(na, add(s.Len, intLit64(i))), addAt(intLit64(i))))
		}
		vc.S.Assert(implies(not(inplace), and(append(conj, fmt.Sprintf("(forall ((j Int)) (! (=> (and (<= 0 j) (< j %s)) (= (select %s j) (select %s (+ %s j)))) :pattern ((select %s j))))", s.Len, na, oldArr, s.Off, na))...)))
	} else {
		vc.S.Assert(fmt.Sprintf("(forall ((j Int)) (! (and (=> %s (= (select %s j) (ite (and (<= (+ %s %s) j) (< j (+ %s %s))) %s (select %s j)))) (=> (not %s) (and (=> (and (<= 0 j) (< j %s)) (= (select %s j) (select %s (+ %s j)))) (=> (and (<= %s j) (< j %s)) (= (select %s j) %s))))) :pattern ((select %s j))))",
			inplace, na, s.Off, s.Len, s.Off, newLen, addAt(sub(sub("j", s.Off), s.Len)), oldArr,
			inplace, s.Len, na, oldArr, s.Off, s.Len, newLen, na, addAt(sub("j", s.Len)), na))
	}
	fr.cur.Set(mn, sto(fr.cur.Get(mn), rb, na))
	return &Val{Typ: resT, Sl: &SliceParts{rb, roff, newLen, ncap}}
}

// ---------- contracts at call sites ----------

func (fr *Frame) checkPre(in ssa.Instruction, callee *ssa.Function, c *Contract, args []*Val, tag string) *SpecEnv {
	return fr.checkPreClosure(in, callee, c, args, tag, nil)
}

func (fr *Frame) checkPreClosure(in ssa.Instruction, callee *ssa.Function, c *Contract, args []*Val, tag string, closure *Val) *SpecEnv {
	vc := fr.vc
	env := vc.calleeEnv(fr, c, callee, nil, args)
	if closure != nil {
		// captured variables are visible in the closure's contract under their source names
		for i, fv := range callee.FreeVars {
			if i >= len(closure.Bind) {
				break
			}
			b := closure.Bind[i]
			if _, isPtr := fv.Type().(*types.Pointer); isPtr {
				if p := vc.ptrOf(b); p != nil {
					env.names[fv.Name()] = vc.loadPtr(p, fr.cur)
					continue
				}
			}
			env.names[fv.Name()] = b
		}
	}
	env.heap = fr.cur
	env.old = fr.cur
	env.held = fr.held
	key := "pre@" + c.Func
	for k, rq := range c.Requires {
		cond := env.evalBool(rq.E)
		n := vc.callCount[fmt.Sprintf("%s#%d", key, k)]
		vc.callCount[fmt.Sprintf("%s#%d", key, k)] = n + 1
		pos := vc.P.SSA.Fset.Position(in.Pos())
		vc.addObl(&Obligation{Kind: "pre", Anchor: fmt.Sprintf("%s%s#%d/req%d", tag, c.Func, n, k), Props: c.ClauseProps(rq), Desc: fmt.Sprintf("precondition of %s: %s (call at %s:%d)", c.Func, rq.Src, shortFile(pos.Filename), pos.Line),
			File: pos.Filename, Line: pos.Line, Goals: []Goal{{Reach: fr.here(), Cond: cond, Where: fmt.Sprintf("%s:%d", shortFile(pos.Filename), pos.Line)}}, Mark: vc.S.Mark()})
		fr.assume(cond)
	}
	return env
}

func (fr *Frame) applyContract(in ssa.Instruction, callee *ssa.Function, cc *ssa.CallCommon, c *Contract, args []*Val, resT types.Type) *Val {
	vc := fr.vc
	if c.Trusted {
		if c.TrustWhy != "" {
			vc.Trusted["contract:"+c.Pkg+"."+c.Func+" — "+c.TrustWhy] = true
		} else {
			vc.Trusted["contract:"+c.Pkg+"."+c.Func] = true
		}
	}
	pre := fr.cur
	env := vc.calleeEnv(fr, c, callee, cc, args)
	env.heap = pre
	env.old = pre
	env.held = fr.held
	key := "pre@" + c.Func
	for k, rq := range c.Requires {
		cond := env.evalBool(rq.E)
		ck := fmt.Sprintf("%s#%d", key, k)
		n := vc.callCount[ck]
		vc.callCount[ck] = n + 1
		pos := vc.P.SSA.Fset.Position(in.Pos())
		props := c.ClauseProps(rq)
		if len(props) == 0 && fr.c != nil {
			props = fr.c.Props // preconditions of library contracts belong to the caller's property
		}
		vc.addObl(&Obligation{Kind: "pre", Anchor: fmt.Sprintf("%s#%d/req%d", c.Func, n, k), Props: props, Desc: fmt.Sprintf("precondition of %s: %s (call at %s:%d)", c.Func, rq.Src, shortFile(pos.Filename), pos.Line),
			File: pos.Filename, Line: pos.Line, Goals: []Goal{{Reach: fr.here(), Cond: cond, Where: fmt.Sprintf("%s:%d", shortFile(pos.Filename), pos.Line)}}, Mark: vc.S.Mark()})
		fr.assume(cond)
	}
	// effects
	if c.ModAll || !c.HasMod && !c.Trusted && false {
		fr.cur = pre.Havoc(nil, "c")
		fr.preserveUnescaped(pre, fr.cur)
		if len(c.Modifies) > 0 {
			// ghost variables listed next to '*'
			only := map[string]bool{}
			for _, m := range c.Modifies {
				for _, n := range env.modNames(m.E) {
					if strings.HasPrefix(n, "G|ghost.") {
						only[n] = true
					}
				}
			}
			if len(only) > 0 {
				fr.cur = fr.cur.Havoc(only, "g")
			}
		}
	} else if len(c.Modifies) > 0 {
		fr.cur = fr.applyModifies(env, c, pre)
	} else {
		// the callee may allocate (and return) fresh objects: allocation grows monotonically
		fr.cur = pre.Havoc(map[string]bool{"$alloc": true}, "a")
	}
	for _, a := range args {
		if a != nil && a.View != nil && len(c.Modifies) > 0 {
			fr.writeBackView(a)
		}
	}
	res := vc.freshTuple("ret."+mangle(c.Func), resT)
	fr.resultsAllocated(res)
	env.heap = fr.cur
	env.old = pre
	env.bindResults(callee, cc, res)
	// ghost assignments of the callee
	if len(c.GhostSets) > 0 {
		nh := fr.cur.Derive()
		for _, gs := range c.GhostSets {
			if gv, ok := vc.P.CS.GhostVars[gs.Name]; ok {
				if t, ok := env.tryEvalBool(gs.Cl.E); ok {
					nh.Set(vc.ghostVarHeap(gv), t)
				}
			}
		}
		fr.cur = nh
		env.heap = nh
	}
	for _, en := range c.Ensures {
		// clauses that mention the callee's own ghost snapshots cannot be stated at a call site: they are simply not assumed
		cond, ok := env.tryEvalBool(en.E)
		if !ok {
			vc.drop("postcondition-not-usable-at-call-site:" + c.Func + ": " + en.Src)
			continue
		}
		fr.assume(cond)
	}
	for _, en := range c.TrustedEnsures {
		if cond, ok := env.tryEvalBool(en.E); ok {
			fr.assume(cond)
			vc.Trusted[fmt.Sprintf("assumed postcondition of %s: %s", c.Func, en.Src)] = true
		}
	}
	return res
}

// applyModifies havocs exactly the locations named by the modifies clauses.
func (fr *Frame) applyModifies(env *SpecEnv, c *Contract, pre *Heap) *Heap {
	vc := fr.vc
	// group locations by heap name
	type loc struct{ ref, idx Term }
	byName := map[string][]loc{}
	whole := map[string]bool{}
	var subs []*Ptr
	for _, m := range c.Modifies {
		for _, l := range env.modLocs(m.E) {
			if l.Whole {
				whole[l.Heap] = true
			} else {
				byName[l.Heap] = append(byName[l.Heap], loc{l.Ref, l.Idx})
				if l.Sub != nil {
					subs = append(subs, l.Sub)
				}
			}
		}
	}
	only := map[string]bool{"$alloc": true}
	for n := range byName {
		only[n] = true
	}
	for n := range whole {
		only[n] = true
	}
	post := pre.Havoc(only, "m")
	al := pre.Get("$alloc")
	for _, n := range sortedKeysOf(byName) { // sorted: the order fixes the order of declarations in the query
		locs := byName[n]
		if whole[n] {
			continue
		}
		oldA, newA := pre.Get(n), post.Get(n)
		if strings.HasPrefix(n, "G|") {
			continue
		}
		var ne []Term
		for _, l := range locs {
			ne = append(ne, not(eq("r", l.ref)))
		}
		vc.S.Assert(fmt.Sprintf("(forall ((r Int)) (! (=> (and (select %s r) %s) (= (select %s r) (select %s r))) :pattern ((select %s r))))", al, and(ne...), newA, oldA, newA))
	}
	// a pointer into the middle of a slot (field of a struct value, element of an array): everything in the
	// slot except the pointed-to part keeps its value. Only stated when the slot is named once.
	for _, p := range subs {
		if whole[p.Heap] || len(byName[p.Heap]) != 1 {
			continue
		}
		if p.Idx != "" {
			oldA, newA := pre.Get(p.Heap), post.Get(p.Heap)
			vc.S.Assert(fmt.Sprintf("(forall ((j Int)) (! (=> (not (= j %s)) (= (select (select %s %s) j) (select (select %s %s) j))) :pattern ((select (select %s %s) j))))", p.Idx, newA, p.Ref, oldA, p.Ref, newA, p.Ref))
		}
		if len(p.Path) > 0 {
			oldS, newS := vc.slotGet(p, pre), vc.slotGet(p, post)
			vc.S.Assert(eq(newS, vc.pathSet(oldS, p.Path, vc.pathGet(newS, p.Path))))
		}
	}
	return post
}

// inline executes the callee body in the caller's context.
func (fr *Frame) inline(in ssa.Instruction, callee *ssa.Function, c *Contract, args []*Val, closure *Val) *Val {
	vc := fr.vc
	sub := vc.newFrame(callee, c, fr.depth+1)
	sub.inlined = true
	sub.heldIn = copySet(fr.held)
	if c == nil {
		// safety classes requested by the enclosing contract extend into auto-inlined helpers
		sub.c = &Contract{Pkg: QualNamePkg(callee), Func: FuncName(callee), Checks: fr.checksOf(), Props: fr.propsOf(), LoopInv: map[int][]Clause{}, Arith: fr.arithOf()}
	}
	for i, p := range callee.Params {
		if i < len(args) {
			a := *args[i]
			a.Typ = p.Type()
			sub.vals[p] = &a
			sub.params[p.Name()] = &a
		}
	}
	if closure != nil {
		for i, fv := range callee.FreeVars {
			if i < len(closure.Bind) {
				sub.vals[fv] = closure.Bind[i]
			}
		}
	}
	if c != nil && len(c.Requires) > 0 {
		fr.checkPre(in, callee, c, args, "")
	}
	sub.run(fr.here(), fr.cur)
	// merge returns
	if len(sub.rets) == 0 {
		// callee never returns (panics): path ends
		fr.assume("false")
		var resT types.Type = callee.Signature.Results()
		return vc.freshTuple("noret", resT)
	}
	var conds []Term
	var heaps []*Heap
	for _, r := range sub.rets {
		conds = append(conds, r.reach)
		heaps = append(heaps, r.heap)
	}
	// the call returns iff some return is reached
	fr.assume(or(conds...))
	// locks held after the call: those held at every return of the callee
	var heldAfter map[string]bool
	for _, r := range sub.rets {
		ho := sub.heldOut[r.block]
		if heldAfter == nil {
			heldAfter = copySet(ho)
		} else {
			for k := range heldAfter {
				if !ho[k] {
					delete(heldAfter, k)
				}
			}
		}
	}
	if heldAfter != nil {
		fr.held = heldAfter
	}
	fr.cur = vc.mergeHeaps(heaps, conds)
	nres := callee.Signature.Results().Len()
	mk := func(i int) *Val {
		t := callee.Signature.Results().At(i).Type()
		if len(sub.rets) == 1 {
			v := *sub.rets[0].vals[i]
			v.Typ = t
			return &v
		}
		term := vc.term(sub.rets[len(sub.rets)-1].vals[i])
		for k := len(sub.rets) - 2; k >= 0; k-- {
			term = ite(sub.rets[k].reach, vc.term(sub.rets[k].vals[i]), term)
		}
		return &Val{T: vc.S.Define(fmt.Sprintf("%s.ret%d", sub.prefix, i), vc.sortOf(t), term), Typ: t}
	}
	switch nres {
	case 0:
		return &Val{T: "0", Typ: callee.Signature.Results()}
	case 1:
		return mk(0)
	}
	tv := &Val{Typ: callee.Signature.Results()}
	for i := 0; i < nres; i++ {
		tv.Tup = append(tv.Tup, mk(i))
	}
	return tv
}

func (fr *Frame) checksOf() map[string]bool {
	if fr.c != nil {
		return fr.c.Checks
	}
	return map[string]bool{}
}
func (fr *Frame) propsOf() []string {
	if fr.c != nil {
		return fr.c.Props
	}
	return nil
}
func (fr *Frame) arithOf() string {
	if fr.c != nil {
		return fr.c.Arith
	}
	return ""
}

// atCallAsserts: "at call <callee> assert <expr>" obligations of the enclosing contract.
func (fr *Frame) atCallAsserts(in ssa.Instruction, cc *ssa.CallCommon, args []*Val, callee *ssa.Function) {
	if fr.c == nil || len(fr.c.AtCalls) == 0 {
		return
	}
	name := calleeName(cc, callee)
	fr.atPointAsserts(in, name, fr.occurrence(in, name), args)
}

// atMapUpdate: guards stated at a map assignment m[k] = v through the pseudo-callee "builtin.mapupdate"
// ($0 the map, $1 the key, $2 the value); occurrences are counted over the function's map assignments.
func (fr *Frame) atMapUpdate(x *ssa.MapUpdate) {
	if fr.c == nil {
		return
	}
	want := false
	for _, ac := range fr.c.AtCalls {
		if strings.HasPrefix(ac.Callee, "builtin.mapupdate") && !ac.After {
			want = true
		}
	}
	if !want {
		return
	}
	occ := 0
	for _, b := range fr.fn.Blocks {
		for _, other := range b.Instrs {
			if mu, ok := other.(*ssa.MapUpdate); ok && mu != x && int(mu.Pos()) < int(x.Pos()) {
				occ++
			}
		}
	}
	fr.atPointAsserts(x, "builtin.mapupdate", occ, []*Val{fr.val(x.Map), fr.val(x.Key), fr.val(x.Value)})
}

func (fr *Frame) atPointAsserts(in ssa.Instruction, name string, occ int, args []*Val) {
	vc := fr.vc
	for k, ac := range fr.c.AtCalls {
		if ac.After || !calleeMatchesOcc(name, ac.Callee, occ) {
			continue
		}
		env := fr.specEnvHere()
		env.held = fr.held // held(mu) in a guard speaks about the locks held at this program point
		for i, a := range args {
			env.bound[fmt.Sprintf("$%d", i)] = a
		}
		if ac.Kind == "set" {
			// ghost assignment performed right before the call
			gv, ok := vc.P.CS.GhostVars[ac.Let]
			if !ok {
				vc.errorf("at call %s set: %s is not a ghost variable", ac.Callee, ac.Let)
				continue
			}
			v := env.eval(ac.Cl.E)
			nh := fr.cur.Derive()
			nh.Set(vc.ghostVarHeap(gv), vc.term(v))
			fr.cur = nh
			continue
		}
		if ac.Kind == "let" {
			// ghost snapshot of the state right before the call
			v := env.eval(ac.Cl.E)
			sn := &Val{T: vc.S.Define("ghost."+ac.Let, vc.sortOfVal(v), vc.term(v)), Typ: v.Typ}
			if fr.ghosts == nil {
				fr.ghosts = map[string]*Val{}
			}
			fr.ghosts[ac.Let] = sn
			if vc.letTypes == nil {
				vc.letTypes = map[string]*Val{}
			}
			vc.letTypes[ac.Let] = sn
			continue
		}
		// a guard tagged for other properties only is neither checked nor assumed in this run: every
		// property's check stands on its own clauses (and on the untagged ones, which belong to all)
		if ac.Kind == "assert" && CurProp != "" && fr.c != nil && !hasStr(fr.c.ClauseProps(ac.Cl), CurProp) {
			continue
		}
		cond := env.evalBool(ac.Cl.E)
		if ac.Kind == "assume" {
			fr.assume(cond)
			vc.Trusted[fmt.Sprintf("assume at call %s in %s: %s", ac.Callee, fr.c.Func, ac.Cl.Src)] = true
			continue
		}
		ck := fmt.Sprintf("at@%s#%d", ac.Callee, k)
		n := vc.callCount[ck]
		vc.callCount[ck] = n + 1
		pos := vc.P.SSA.Fset.Position(in.Pos())
		vc.addObl(&Obligation{Kind: "guard", Anchor: fmt.Sprintf("%s#%d/a%d", ac.Callee, n, k), Props: fr.c.ClauseProps(ac.Cl), Desc: fmt.Sprintf("at call %s: %s (%s:%d)", ac.Callee, ac.Cl.Src, shortFile(pos.Filename), pos.Line),
			File: pos.Filename, Line: pos.Line, Goals: []Goal{{Reach: fr.here(), Cond: cond, Where: fmt.Sprintf("%s:%d", shortFile(pos.Filename), pos.Line)}}, Mark: vc.S.Mark()})
		fr.assume(cond)
	}
}

// occurrence: ordinal of this call among the calls to the same callee in the function (source order).
func (fr *Frame) occurrence(in ssa.Instruction, name string) int {
	n := 0
	type posd struct{ pos int }
	my := int(in.Pos())
	for _, b := range fr.fn.Blocks {
		for _, other := range b.Instrs {
			ci, ok := other.(ssa.CallInstruction)
			if !ok || other == in {
				continue
			}
			cc := ci.Common()
			var callee *ssa.Function
			switch v := cc.Value.(type) {
			case *ssa.Function:
				callee = v
			case *ssa.MakeClosure:
				callee = v.Fn.(*ssa.Function)
			}
			if calleeName(cc, callee) == name && int(other.Pos()) < my {
				n++
			}
		}
	}
	return n
}

// calleeMatchesOcc: pattern "Callee#n" restricts the match to the n-th call (source order) of that callee.
func calleeMatchesOcc(name, pat string, occ int) bool {
	if i := strings.LastIndex(pat, "#"); i > 0 {
		var want int
		if _, err := fmt.Sscanf(pat[i+1:], "%d", &want); err == nil {
			return want == occ && calleeMatches(name, pat[:i])
		}
	}
	return calleeMatches(name, pat)
}

func calleeMatches(name, pat string) bool {
	if name == pat {
		return true
	}
	if strings.HasSuffix(name, "."+pat) || strings.HasSuffix(name, "/"+pat) {
		return true
	}
	// allow "(*T).M" to match "pkg.(*T).M"
	return strings.HasSuffix(name, pat) && (len(name) == len(pat) || strings.ContainsAny(string(name[len(name)-len(pat)-1]), "./"))
}

// resultsAllocated: references returned by a call are nil or allocated in the post-call state.
func (fr *Frame) resultsAllocated(r *Val) {
	if r == nil {
		return
	}
	if r.Tup != nil {
		for _, e := range r.Tup {
			fr.resultsAllocated(e)
		}
		return
	}
	if r.Typ == nil || r.T == "" {
		return
	}
	fr.loadedRefFact(r, r.Typ)
}

// afterCall: "after call <callee> assume|assert <expr>" evaluated in the post-call state.
func (fr *Frame) afterCall(in ssa.Instruction, cc *ssa.CallCommon, args []*Val, callee *ssa.Function, ret *Val) {
	vc := fr.vc
	name := calleeName(cc, callee)
	occ := fr.occurrence(in, name)
	for k, ac := range fr.c.AtCalls {
		if !ac.After || !calleeMatchesOcc(name, ac.Callee, occ) {
			continue
		}
		env := fr.specEnvHere()
		env.idx = fr.curI // names defined before the call
		for i, a := range args {
			env.bound[fmt.Sprintf("$%d", i)] = a
		}
		if ret != nil {
			env.bound["$ret"] = ret
			for i, e := range ret.Tup {
				env.bound[fmt.Sprintf("$ret%d", i)] = e
			}
		}
		if ac.Kind == "let" {
			// ghost snapshot: the value of the expression in the state right after the call
			v := env.eval(ac.Cl.E)
			sn := &Val{T: vc.S.Define("ghost."+ac.Let, vc.sortOfVal(v), vc.term(v)), Typ: v.Typ}
			if fr.ghosts == nil {
				fr.ghosts = map[string]*Val{}
			}
			fr.ghosts[ac.Let] = sn
			if vc.letTypes == nil {
				vc.letTypes = map[string]*Val{}
			}
			vc.letTypes[ac.Let] = sn
			continue
		}
		if ac.Kind == "set" {
			// ghost assignment inside the function body: <ghost var> = value of the expression after the call
			gv, ok := vc.P.CS.GhostVars[ac.Let]
			if !ok {
				vc.errorf("after call %s set: %s is not a ghost variable", ac.Callee, ac.Let)
				continue
			}
			v := env.eval(ac.Cl.E)
			nh := fr.cur.Derive()
			nh.Set(vc.ghostVarHeap(gv), vc.term(v))
			fr.cur = nh
			continue
		}
		if ac.Kind == "assert" && CurProp != "" && fr.c != nil && !hasStr(fr.c.ClauseProps(ac.Cl), CurProp) {
			continue
		}
		cond := env.evalBool(ac.Cl.E)
		if ac.Kind == "assume" {
			fr.assume(cond)
			vc.Trusted[fmt.Sprintf("assumed after call %s in %s: %s", ac.Callee, fr.c.Func, ac.Cl.Src)] = true
			continue
		}
		ck := fmt.Sprintf("after@%s#%d", ac.Callee, k)
		n := vc.callCount[ck]
		vc.callCount[ck] = n + 1
		pos := vc.P.SSA.Fset.Position(in.Pos())
		vc.addObl(&Obligation{Kind: "guard", Anchor: fmt.Sprintf("after:%s#%d/a%d", ac.Callee, n, k), Props: fr.c.ClauseProps(ac.Cl), Desc: fmt.Sprintf("after call %s: %s (%s:%d)", ac.Callee, ac.Cl.Src, shortFile(pos.Filename), pos.Line),
			File: pos.Filename, Line: pos.Line, Goals: []Goal{{Reach: fr.here(), Cond: cond, Where: fmt.Sprintf("%s:%d", shortFile(pos.Filename), pos.Line)}}, Mark: vc.S.Mark()})
		fr.assume(cond)
	}
}

func (vc *VC) sortOfVal(v *Val) string {
	if v.Typ == nil {
		return "Int"
	}
	if b, ok := v.Typ.(*types.Basic); ok && b.Kind() == types.UntypedInt {
		return "Int"
	}
	return vc.sortOf(v.Typ)
}
