package vc

import (
	"fmt"
	"go/constant"
	"go/types"
	"math/big"
	"strings"

	"golang.org/x/tools/go/ssa"
)

type SpecEnv struct {
	fr          *Frame
	vc          *VC
	heap        *Heap
	old         *Heap
	block       *ssa.BasicBlock
	idx         int
	bound       map[string]*Val
	names       map[string]*Val
	pkg         string
	inOld       bool
	entryParams bool            // parameter names denote entry values (requires/ensures)
	held        map[string]bool // mutexes held at the evaluation point (nil: assume context)
	qvars       map[string]bool // SMT names of quantifier variables in scope
	pats        []Term          // candidate triggers: (select a v) with v a quantifier variable
	qterms      []Term          // the loaded terms the facts in qfacts speak about (same order)
	qfacts      []Term          // integer-range facts of heap loads that mention a bound variable (see field, quant)
	qdecls      []string        // declarations of the quantifier variables bound since the outermost quantifier
	errs        []string
	reachT      Term // path condition of the evaluation point, when it is not that of fr/block
}

// pathCond is the path condition under which facts about values loaded while evaluating this
// expression are stated: typing facts about what the heap holds must not leak to other paths (on another
// path the same heap version may be written with a value the code never produces there).
func (env *SpecEnv) pathCond() Term {
	if env.reachT != "" {
		return env.reachT
	}
	if env.fr != nil && env.block != nil {
		if r, ok := env.fr.reach[env.block]; ok && r != "" {
			return r
		}
	}
	return "true"
}

type specErr string

func (env *SpecEnv) fail(format string, a ...any) {
	panic(specErr(fmt.Sprintf(format, a...)))
}

func (env *SpecEnv) evalBool(e Expr) (t Term) {
	defer func() {
		if r := recover(); r != nil {
			if se, ok := r.(specErr); ok {
				env.VC().errorf("spec %q: %s", e.String(), string(se))
				t = "false"
				return
			}
			panic(r)
		}
	}()
	v := env.eval(e)
	return env.VC().term(v)
}

// tryEvalBool evaluates a clause, reporting failure instead of recording a contract error.
func (env *SpecEnv) tryEvalBool(e Expr) (t Term, ok bool) {
	defer func() {
		if r := recover(); r != nil {
			if _, isSpec := r.(specErr); isSpec {
				t, ok = "true", false
				return
			}
			panic(r)
		}
	}()
	v := env.eval(e)
	return env.VC().term(v), true
}

func (env *SpecEnv) VC() *VC {
	if env.vc != nil {
		return env.vc
	}
	return env.fr.vc
}

func (env *SpecEnv) curHeap() *Heap {
	if env.inOld {
		return env.old
	}
	return env.heap
}

func (env *SpecEnv) pkgPath() string {
	if env.pkg != "" {
		return env.pkg
	}
	if env.fr != nil && env.fr.fn.Pkg != nil {
		return env.fr.fn.Pkg.Pkg.Path()
	}
	return ""
}

func boolVal(t Term) *Val { return &Val{T: t, Typ: types.Typ[types.Bool]} }
func intVal(t Term) *Val  { return &Val{T: t, Typ: types.Typ[types.UntypedInt]} }

func (env *SpecEnv) eval(e Expr) *Val {
	vc := env.VC()
	switch x := e.(type) {
	case *IntLit:
		return intVal(intLit(x.V))
	case *RealLit:
		return &Val{T: x.V, Typ: types.Typ[types.Float64]}
	case *BoolLit:
		if x.V {
			return boolVal("true")
		}
		return boolVal("false")
	case *StrLit:
		return &Val{T: vc.strLit(x.V), Typ: types.Typ[types.String]}
	case *Ident:
		return env.lookup(x.Name)
	case *Unary:
		switch x.Op {
		case "!":
			return boolVal(not(vc.term(env.eval(x.X))))
		case "-":
			return intVal(sub("0", vc.term(env.eval(x.X))))
		case "*":
			v := env.eval(x.X)
			p := vc.ptrOf(v)
			if p == nil {
				env.fail("cannot dereference %s", x.X)
			}
			return vc.loadPtr(p, env.curHeap())
		}
	case *Binary:
		return env.binary(x)
	case *IteE:
		c := vc.term(env.eval(x.C))
		a, b := env.eval(x.A), env.eval(x.B)
		r := *a
		r.Sl, r.P = nil, nil
		r.T = ite(c, vc.term(a), vc.term(b))
		return &r
	case *Sel:
		// package-qualified name?
		if id, ok := x.X.(*Ident); ok {
			if _, isVar := env.tryLookup(id.Name); !isVar {
				if v := env.pkgMember(id.Name, x.Name); v != nil {
					return v
				}
			}
		}
		return env.selector(env.eval(x.X), x.Name)
	case *IndexE:
		return env.index(env.eval(x.X), env.eval(x.I))
	case *SliceE:
		return env.sliceExpr(x)
	case *CallE:
		return env.call(x)
	case *Quant:
		return env.quant(x)
	}
	env.fail("unsupported spec expression %s", e)
	return nil
}

func (env *SpecEnv) quant(x *Quant) *Val {
	vc := env.VC()
	// a quantifier over a small literal range nested inside another quantifier is expanded into its
	// instances: the solvers then see one bound variable per formula (no two-variable index terms
	// such as 16*k+j, on which e-matching is unstable). Same meaning, finitely many conjuncts.
	if lo, ok := x.Lo.(*IntLit); ok && len(env.qvars) > 0 {
		if hi, ok := x.Hi.(*IntLit); ok && lo.V.IsInt64() && hi.V.IsInt64() && hi.V.Int64()-lo.V.Int64() <= 64 {
			saved, had := env.bound[x.Var]
			var parts []Term
			for i := lo.V.Int64(); i < hi.V.Int64(); i++ {
				env.bound[x.Var] = &Val{T: Term(fmt.Sprint(i)), Typ: types.Typ[types.Int]}
				parts = append(parts, vc.term(env.eval(x.Body)))
			}
			if had {
				env.bound[x.Var] = saved
			} else {
				delete(env.bound, x.Var)
			}
			if x.Forall {
				return boolVal(and(parts...))
			}
			return boolVal(or(parts...))
		}
	}
	vname := fmt.Sprintf("%s!q%d", x.Var, vc.S.nfresh)
	vc.S.nfresh++
	saved, had := env.bound[x.Var]
	var sortS string
	var guard Term = "true"
	if x.Lo != nil {
		sortS = "Int"
		env.bound[x.Var] = &Val{T: q(vname), Typ: types.Typ[types.Int]}
		lo, hi := vc.term(env.eval(x.Lo)), vc.term(env.eval(x.Hi))
		guard = and(cmp("<=", lo, q(vname)), cmp("<", q(vname), hi))
	} else {
		t, err := vc.P.ResolveType(env.pkgPath(), x.Type)
		if err != nil {
			env.fail("%v", err)
		}
		sortS = vc.sortOf(t)
		env.bound[x.Var] = &Val{T: q(vname), Typ: t}
		// only integer ranges are used as guards: well-formedness facts of slices, strings and
		// structs are not available for spec-evaluated terms and would block instantiation
		if _, _, isInt := intRange(t); isInt {
			guard = vc.rangeFact(q(vname), t, 0)
		}
	}
	if env.qvars == nil {
		env.qvars = map[string]bool{}
	}
	env.qvars[q(vname)] = true
	savedPats := env.pats
	env.pats = nil
	savedFacts, savedTerms := env.qfacts, env.qterms
	if len(env.qvars) == 1 {
		env.qfacts, env.qterms = nil, nil
	}
	body := vc.term(env.eval(x.Body))
	pats := env.pats
	env.pats = savedPats
	// type facts of heap-held integers read under the quantifier (they mention bound variables, so
	// they cannot be asserted as ground facts): the outermost quantifier states them as one
	// universally quantified heap-typing axiom over all variables bound inside it
	env.qdecls = append(env.qdecls, fmt.Sprintf("(%s %s)", q(vname), sortS))
	if len(env.qvars) == 1 {
		// one axiom per loaded term, over the bound variables that term mentions, triggered by the term
		// itself; an axiom already stated for the same path condition is not repeated
		for i, f := range env.qfacts {
			var ds []string
			for _, d := range env.qdecls {
				name := strings.TrimPrefix(strings.SplitN(d, " ", 2)[0], "(")
				if strings.Contains(f, name) {
					ds = append(ds, d)
				}
			}
			if len(ds) == 0 {
				continue
			}
			body := f
			if patternOK(env.qterms[i]) {
				body = fmt.Sprintf("(! %s :pattern (%s))", f, env.qterms[i])
			}
			ax := implies(env.pathCond(), fmt.Sprintf("(forall (%s) %s)", strings.Join(ds, " "), body))
			if vc.qaxSeen == nil {
				vc.qaxSeen = map[string]bool{}
			}
			if !vc.qaxSeen[ax] {
				vc.qaxSeen[ax] = true
				vc.S.Assert(ax)
			}
		}
		env.qfacts, env.qterms, env.qdecls = savedFacts, savedTerms, nil
	}
	delete(env.qvars, q(vname))
	if had {
		env.bound[x.Var] = saved
	} else {
		delete(env.bound, x.Var)
	}
	if x.Forall {
		inner := implies(guard, body)
		var ps []string
		seen := map[string]bool{}
		for _, p := range pats {
			if strings.Contains(p, q(vname)) && !seen[p] {
				seen[p] = true
				ps = append(ps, ":pattern ("+p+")")
			}
		}
		if len(ps) > 0 && sortS == "Int" {
			return boolVal(fmt.Sprintf("(forall ((%s %s)) (! %s %s))", q(vname), sortS, inner, strings.Join(ps, " ")))
		}
		return boolVal(fmt.Sprintf("(forall ((%s %s)) %s)", q(vname), sortS, inner))
	}
	return boolVal(fmt.Sprintf("(exists ((%s %s)) %s)", q(vname), sortS, and(guard, body)))
}

func (env *SpecEnv) binary(x *Binary) *Val {
	vc := env.VC()
	switch x.Op {
	case "&&":
		return boolVal(and(vc.term(env.eval(x.X)), vc.term(env.eval(x.Y))))
	case "||":
		return boolVal(or(vc.term(env.eval(x.X)), vc.term(env.eval(x.Y))))
	case "==>":
		return boolVal(implies(vc.term(env.eval(x.X)), vc.term(env.eval(x.Y))))
	case "<==>":
		return boolVal(eq(vc.term(env.eval(x.X)), vc.term(env.eval(x.Y))))
	case "==", "!=":
		var t Term
		if isNilIdent(x.Y) {
			t = env.isNil(env.eval(x.X))
		} else if isNilIdent(x.X) {
			t = env.isNil(env.eval(x.Y))
		} else {
			a, b := env.eval(x.X), env.eval(x.Y)
			t = eq(vc.term(a), vc.term(b))
		}
		if x.Op == "!=" {
			t = not(t)
		}
		return boolVal(t)
	case "<", "<=", ">", ">=":
		a, b := env.eval(x.X), env.eval(x.Y)
		ta, tb := vc.term(a), vc.term(b)
		ra := a.Typ != nil && vc.sortOf(a.Typ) == "Real"
		rb := b.Typ != nil && vc.sortOf(b.Typ) == "Real"
		if ra != rb {
			if !ra {
				ta = toReal(ta)
			} else {
				tb = toReal(tb)
			}
		}
		return boolVal(cmp(x.Op, ta, tb))
	}
	a, b := env.eval(x.X), env.eval(x.Y)
	ta, tb := vc.term(a), vc.term(b)
	if a.Typ != nil && vc.sortOf(a.Typ) == "Real" || b.Typ != nil && vc.sortOf(b.Typ) == "Real" {
		toR := func(v *Val, t Term) Term {
			if v.Typ == nil || vc.sortOf(v.Typ) != "Real" {
				if isIntLit(t) {
					return t + ".0"
				}
				return "(to_real " + t + ")"
			}
			return t
		}
		ra, rb := toR(a, ta), toR(b, tb)
		op := x.Op
		return &Val{T: "(" + op + " " + ra + " " + rb + ")", Typ: types.Typ[types.Float64]}
	}
	switch x.Op {
	case "+":
		if a.Typ != nil && vc.sortOf(a.Typ) == "Str" {
			return &Val{T: "(str-cat " + ta + " " + tb + ")", Typ: a.Typ}
		}
		return intVal(add(ta, tb))
	case "-":
		return intVal(sub(ta, tb))
	case "*":
		return intVal(mul(ta, tb))
	case "/":
		// spec division is Go's truncated division on integers
		return intVal("(tdiv " + ta + " " + tb + ")")
	case "%":
		return intVal("(tmod " + ta + " " + tb + ")")
	case "&":
		if vb, ok := litVal(tb); ok {
			// constant mask of the form 2^k-1
			one := new(big.Int).Add(vb, big.NewInt(1))
			if one.BitLen() > 0 && new(big.Int).And(one, vb).Sign() == 0 {
				return intVal(modT(ta, one))
			}
		}
		return intVal("(uf-and " + ta + " " + tb + ")")
	case "|":
		return intVal("(uf-or " + ta + " " + tb + ")")
	case "^":
		return intVal("(uf-xor " + ta + " " + tb + ")")
	case "<<":
		if vb, ok := litVal(tb); ok {
			return intVal(mul(ta, intLit(pow2(int(vb.Int64())))))
		}
	case ">>":
		if vb, ok := litVal(tb); ok {
			return intVal("(div " + ta + " " + pow2(int(vb.Int64())).String() + ")")
		}
	}
	env.fail("unsupported operator %s", x.Op)
	return nil
}

func toReal(t Term) Term {
	if isIntLit(t) {
		if strings.HasPrefix(t, "(- ") {
			return "(- " + t[3:len(t)-1] + ".0)"
		}
		return t + ".0"
	}
	return "(to_real " + t + ")"
}

func isNilIdent(e Expr) bool {
	id, ok := e.(*Ident)
	return ok && id.Name == "nil"
}

func (env *SpecEnv) isNil(v *Val) Term {
	vc := env.VC()
	if v.Typ != nil {
		switch vc.sortOf(v.Typ) {
		case "Iface":
			return eq("(if-tag "+vc.term(v)+")", "0")
		case "Slice":
			return eq(vc.slice(v).Base, "0")
		}
	}
	return eq(vc.term(v), "0")
}

func (env *SpecEnv) tryLookup(name string) (*Val, bool) {
	if v, ok := env.bound[name]; ok {
		return v, true
	}
	if v, ok := env.names[name]; ok {
		return v, true
	}
	if env.fr != nil {
		if g, ok := env.fr.ghosts[name]; ok {
			return g, true
		}
		// a ghost let that is declared but not (yet) bound on this path: an unknown value
		if env.fr.c != nil {
			for _, ac := range env.fr.c.AtCalls {
				if ac.Kind == "let" && ac.Let == name {
					if !env.fr.letHasSite(name) {
						env.fail("ghost let %s can never be bound: no call in the function matches its pattern", name)
					}
					if proto, ok := env.fr.vc.letTypes[name]; ok {
						return &Val{T: env.fr.vc.S.FreshConst("unbound."+name, env.fr.vc.sortOfVal(proto)), Typ: proto.Typ}, true
					}
					return &Val{T: env.fr.vc.S.FreshConst("unbound."+name, "Bool"), Typ: types.Typ[types.Bool]}, true
				}
			}
		}
		// a declared ghost variable is never shadowed by a program variable that happens to carry the same
		// name (the code under contract may grow one at any time; the contract keeps meaning the ghost)
		if gv, ok := env.fr.vc.P.CS.GhostVars[name]; ok {
			return &Val{T: env.curHeap().Get(env.fr.vc.ghostVarHeap(gv)), Typ: env.fr.vc.ghostVarType(gv)}, true
		}
		if env.fr.c != nil {
			for _, lls := range env.fr.c.LoopLets {
				for _, ll := range lls {
					if ll.Name == name {
						if proto, ok := env.fr.vc.letTypes[name]; ok {
							return &Val{T: env.fr.vc.S.FreshConst("unbound."+name, env.fr.vc.sortOfVal(proto)), Typ: proto.Typ}, true
						}
						return &Val{T: env.fr.vc.S.FreshConst("unbound."+name, "Bool"), Typ: types.Typ[types.Bool]}, true
					}
				}
			}
		}
		if v := env.fr.lookupLocal(name, env.block, env.idx, env.curHeap(), env.inOld || env.entryParams); v != nil {
			return v, true
		}
	}
	return nil, false
}

func (env *SpecEnv) lookup(name string) *Val {
	vc := env.VC()
	if v, ok := env.tryLookup(name); ok {
		return v
	}
	switch name {
	case "nil":
		return &Val{T: "0", Typ: types.Typ[types.UntypedNil]}
	case "TimeZero":
		return intVal("TimeZero")
	}
	// package-level constant or variable
	if pk := vc.P.ByPath[env.pkgPath()]; pk != nil {
		if o := pk.Types.Scope().Lookup(name); o != nil {
			if v := env.objVal(o); v != nil {
				return v
			}
		}
	}
	if gv, ok := vc.P.CS.GhostVars[name]; ok {
		return &Val{T: env.curHeap().Get(vc.ghostVarHeap(gv)), Typ: vc.ghostVarType(gv)}
	}
	// ghost constant (0-ary ghost func)
	if g, ok := vc.P.CS.Ghosts[name]; ok && len(g.Params) == 0 {
		return env.ghostApply(g, nil)
	}
	env.fail("unknown name %q", name)
	return nil
}

func (env *SpecEnv) objVal(o types.Object) *Val {
	vc := env.VC()
	switch o := o.(type) {
	case *types.Const:
		switch o.Val().Kind() {
		case constant.Int:
			bi, _ := new(big.Int).SetString(o.Val().ExactString(), 10)
			return &Val{T: intLit(bi), Typ: o.Type()}
		case constant.Bool:
			if constant.BoolVal(o.Val()) {
				return boolVal("true")
			}
			return boolVal("false")
		case constant.String:
			return &Val{T: vc.strLit(constant.StringVal(o.Val())), Typ: o.Type()}
		}
	case *types.Var:
		name := vc.regHeap("G|"+o.Pkg().Path()+"."+o.Name(), vc.sortOf(o.Type()))
		return &Val{T: env.curHeap().Get(name), Typ: o.Type()}
	}
	return nil
}

func (env *SpecEnv) pkgMember(pkgName, member string) *Val {
	vc := env.VC()
	pk := vc.P.ByPath[env.pkgPath()]
	if pk == nil {
		return nil
	}
	for _, im := range pk.Types.Imports() {
		if im.Name() == pkgName {
			if o := im.Scope().Lookup(member); o != nil {
				return env.objVal(o)
			}
		}
	}
	return nil
}

// selector evaluates v.name for struct values, pointers to structs and interior pointers.
func (env *SpecEnv) selector(v *Val, name string) *Val {
	vc := env.VC()
	if v.Typ == nil {
		env.fail("selector .%s on untyped value", name)
	}
	var pkg *types.Package
	if pk := vc.P.ByPath[env.pkgPath()]; pk != nil {
		pkg = pk.Types
	}
	// look the field up in the type's own package to see unexported fields
	t := v.Typ
	base := t
	if pt, ok := t.Underlying().(*types.Pointer); ok {
		base = pt.Elem()
	}
	if n, ok := types.Unalias(base).(*types.Named); ok && n.Obj().Pkg() != nil {
		pkg = n.Obj().Pkg()
	}
	obj, path, _ := types.LookupFieldOrMethod(t, true, pkg, name)
	if _, ok := obj.(*types.Var); !ok || len(path) == 0 {
		if gp := env.ghostFieldPtr(v, name); gp != nil {
			return vc.loadPtr(gp, env.curHeap())
		}
		env.fail("no field %s in %s", name, t)
	}
	cur := v
	for _, idx := range path {
		cur = env.field(cur, idx)
	}
	return cur
}

func (env *SpecEnv) field(v *Val, idx int) *Val {
	vc := env.VC()
	h := env.curHeap()
	if _, isPtr := v.Typ.Underlying().(*types.Pointer); isPtr || v.P != nil {
		p := vc.fieldPtr(v, idx)
		if p == nil {
			env.fail("cannot select field %d of %s", idx, v.Typ)
		}
		r := vc.loadPtr(p, h)
		env.wfRef(r, h)
		// values held in the heap satisfy their type's invariant (integer range, string/slice shape)
		// (a term that mentions a bound quantifier variable cannot be asserted at top level)
		if r.Typ != nil && r.T != "" && !env.mentionsQvar(r.T) {
			if rf := vc.rangeFact(r.T, r.Typ, 0); rf != "true" && len(rf) < 4000 {
				vc.S.Assert(implies(env.pathCond(), rf))
			}
		} else if r.Typ != nil && r.T != "" {
			// under a quantifier the integer range of the loaded value becomes a hypothesis of the
			// innermost enclosing quantifier (see quant)
			if _, _, isInt := intRange(r.Typ); isInt {
				if rf := vc.rangeFact(r.T, r.Typ, 0); rf != "true" && len(rf) < 6000 {
					env.qfacts = append(env.qfacts, rf)
					env.qterms = append(env.qterms, r.T)
				}
			}
		}
		return r
	}
	stT, st := structOf(v.Typ)
	if st == nil {
		env.fail("field selection on non-struct %s", v.Typ)
	}
	name := vc.structSort(stT, st)
	return &Val{T: fmt.Sprintf("(%s %s)", vc.accessor(name, st, idx), vc.term(v)), Typ: st.Field(idx).Type()}
}

func (env *SpecEnv) index(v, i *Val) *Val {
	vc := env.VC()
	h := env.curHeap()
	it := vc.term(i)
	if v.Typ == nil {
		env.fail("index on untyped value")
	}
	note := func(t Term, idx Term) {
		if env.qvars[idx] {
			env.pats = append(env.pats, t)
			return
		}
		// offset + variable: still a usable trigger
	}
	switch t := v.Typ.Underlying().(type) {
	case *types.Slice:
		sp := vc.slice(v)
		inner := sel(h.Get(vc.memName(t.Elem())), sp.Base)
		if len(env.qvars) > 0 && !strings.Contains(inner, "!q") {
			vc.hint(inner, "(Array Int "+vc.sortOf(t.Elem())+")")
		}
		r := sel(inner, add(sp.Off, it))
		note(r, add(sp.Off, it))
		return &Val{T: r, Typ: t.Elem()}
	case *types.Array:
		r := sel(vc.term(v), it)
		note(r, it)
		return &Val{T: r, Typ: t.Elem()}
	case *types.Basic:
		return &Val{T: "(str-at " + vc.term(v) + " " + it + ")", Typ: types.Typ[types.Byte]}
	case *types.Map:
		// Go semantics: a missing key yields the zero value
		d, vn := vc.mapNames(t)
		m := vc.term(v)
		present := and(not(eq(m, "0")), sel(sel(h.Get(d), m), it))
		return &Val{T: ite(present, sel(sel(h.Get(vn), m), it), vc.zeroOf(t.Elem())), Typ: t.Elem()}
	case *types.Pointer:
		if arr, ok := t.Elem().Underlying().(*types.Array); ok {
			p := vc.ptrOf(v)
			a := vc.loadPtr(p, h)
			return &Val{T: sel(a.T, it), Typ: arr.Elem()}
		}
	}
	env.fail("cannot index %s", v.Typ)
	return nil
}

func (env *SpecEnv) sliceExpr(x *SliceE) *Val {
	vc := env.VC()
	v := env.eval(x.X)
	lo := "0"
	if x.Lo != nil {
		lo = vc.term(env.eval(x.Lo))
	}
	switch t := v.Typ.Underlying().(type) {
	case *types.Slice:
		sp := vc.slice(v)
		hi := sp.Len
		if x.Hi != nil {
			hi = vc.term(env.eval(x.Hi))
		}
		return &Val{Typ: v.Typ, Sl: &SliceParts{sp.Base, add(sp.Off, lo), sub(hi, lo), sub(sp.Cap, lo)}}
	case *types.Basic:
		s := vc.term(v)
		hi := "(str-len " + s + ")"
		if x.Hi != nil {
			hi = vc.term(env.eval(x.Hi))
		}
		vc.needStrSub()
		return &Val{T: fmt.Sprintf("(str-sub %s %s %s)", s, lo, hi), Typ: v.Typ}
	default:
		_ = t
	}
	env.fail("cannot slice %s", v.Typ)
	return nil
}

// arrOf returns (array term, offset) for a slice / array / pointer-to-array value of bytes.
func (env *SpecEnv) arrOf(v *Val) (Term, Term) {
	vc := env.VC()
	h := env.curHeap()
	switch t := v.Typ.Underlying().(type) {
	case *types.Slice:
		sp := vc.slice(v)
		return sel(h.Get(vc.memName(t.Elem())), sp.Base), sp.Off
	case *types.Array:
		return vc.term(v), "0"
	case *types.Pointer:
		if _, ok := t.Elem().Underlying().(*types.Array); ok {
			return vc.loadPtr(vc.ptrOf(v), h).T, "0"
		}
	}
	env.fail("expected a byte slice or array, got %s", v.Typ)
	return "", ""
}

func (env *SpecEnv) call(x *CallE) *Val {
	vc := env.VC()
	var fname string
	switch f := x.Fun.(type) {
	case *Ident:
		fname = f.Name
	case *Sel:
		fname = f.String()
	default:
		env.fail("unsupported call %s", x)
	}
	argn := func(n int) {
		if len(x.Args) != n {
			env.fail("%s expects %d arguments", fname, n)
		}
	}
	switch fname {
	case "old":
		argn(1)
		saved := env.inOld
		env.inOld = true
		v := env.eval(x.Args[0])
		// force materialisation under the old heap
		if v.Sl == nil && v.P == nil {
			v = &Val{T: vc.term(v), Typ: v.Typ}
		}
		env.inOld = saved
		return v
	case "len":
		argn(1)
		v := env.eval(x.Args[0])
		switch t := v.Typ.Underlying().(type) {
		case *types.Slice:
			return intVal(vc.slice(v).Len)
		case *types.Basic:
			return intVal("(str-len " + vc.term(v) + ")")
		case *types.Array:
			return intVal(intLit64(t.Len()))
		case *types.Map:
			vc.regHeap("ML", "(Array Int Int)")
			m := vc.term(v)
			return intVal(ite(eq(m, "0"), "0", sel(env.curHeap().Get("ML"), m)))
		case *types.Pointer:
			if arr, ok := t.Elem().Underlying().(*types.Array); ok {
				return intVal(intLit64(arr.Len()))
			}
		}
		env.fail("len of %s", v.Typ)
	case "cap":
		argn(1)
		return intVal(vc.slice(env.eval(x.Args[0])).Cap)
	case "be64", "be32", "be16", "le64", "le32", "le16":
		argn(2)
		arr, off := env.arrOf(env.eval(x.Args[0]))
		return intVal(fmt.Sprintf("(%s %s %s)", fname, arr, add(off, vc.term(env.eval(x.Args[1])))))
	case "has":
		argn(2)
		m := env.eval(x.Args[0])
		mt, ok := m.Typ.Underlying().(*types.Map)
		if !ok {
			env.fail("has() on non-map")
		}
		d, _ := vc.mapNames(mt)
		mtm := vc.term(m)
		return boolVal(and(not(eq(mtm, "0")), sel(sel(env.curHeap().Get(d), mtm), vc.term(env.eval(x.Args[1])))))
	case "min", "max":
		argn(2)
		a, b := vc.term(env.eval(x.Args[0])), vc.term(env.eval(x.Args[1]))
		if fname == "min" {
			return intVal(ite(cmp("<=", a, b), a, b))
		}
		return intVal(ite(cmp(">=", a, b), a, b))
	case "abs":
		argn(1)
		a := vc.term(env.eval(x.Args[0]))
		return intVal(ite(cmp(">=", a, "0"), a, sub("0", a)))
	case "trunc":
		// trunc(x): float-to-integer conversion (toward zero)
		argn(1)
		a := vc.term(env.eval(x.Args[0]))
		return intVal(fmt.Sprintf("(ite (>= %s 0.0) (to_int %s) (- (to_int (- %s))))", a, a, a))
	case "real":
		argn(1)
		return &Val{T: toReal(vc.term(env.eval(x.Args[0]))), Typ: types.Typ[types.Float64]}
	case "fdiv": // floor division
		argn(2)
		return intVal("(div " + vc.term(env.eval(x.Args[0])) + " " + vc.term(env.eval(x.Args[1])) + ")")
	case "fmod":
		argn(2)
		return intVal("(mod " + vc.term(env.eval(x.Args[0])) + " " + vc.term(env.eval(x.Args[1])) + ")")
	case "dyntype":
		argn(1)
		return intVal("(if-tag " + vc.term(env.eval(x.Args[0])) + ")")
	case "istype":
		// istype(x, T)
		argn(2)
		t, err := vc.P.ResolveType(env.pkgPath(), x.Args[1].String())
		if err != nil {
			env.fail("%v", err)
		}
		return boolVal(eq("(if-tag "+vc.term(env.eval(x.Args[0]))+")", vc.typeTag(t)))
	case "held":
		// held(x.mu): the mutex is held at this point
		argn(1)
		mv := env.addrOf(x.Args[0])
		if mv.P == nil {
			env.fail("held() expects a mutex field")
		}
		if env.held == nil {
			return boolVal("true")
		}
		return boolVal(heldFormula(env.held, mv.P.Heap, mv.P.Ref))
	case "preserved":
		// preserved(s): every backing array of s's element type that existed in the pre-state still holds
		// what it held then (a frame fact a loop invariant can carry across the head's havoc)
		argn(1)
		if env.old == nil {
			env.fail("preserved() needs a pre-state")
		}
		sv := env.eval(x.Args[0])
		st, isSl := sv.Typ.Underlying().(*types.Slice)
		if !isSl {
			env.fail("preserved(s) expects a slice (it speaks about all backing arrays of s's element type)")
		}
		mn := vc.memName(st.Elem())
		cur, pre := env.curHeap().Get(mn), env.old.Get(mn)
		return boolVal(fmt.Sprintf("(forall ((r!p Int)) (! (=> (select %s r!p) (= (select %s r!p) (select %s r!p))) :pattern ((select %s r!p))))", env.old.Get("$alloc"), cur, pre, cur))
	case "fresh":
		// fresh(x): the object (or backing array) x, evaluated in the current state, did not exist in the pre-state
		argn(1)
		if env.old == nil {
			env.fail("fresh() needs a pre-state")
		}
		return boolVal(not(sel(env.old.Get("$alloc"), env.refOf(env.eval(x.Args[0])))))
	case "allocated":
		argn(1)
		return boolVal(sel(env.curHeap().Get("$alloc"), env.refOf(env.eval(x.Args[0]))))
	case "hassuffix", "hasprefix":
		argn(2)
		a, b := vc.term(env.eval(x.Args[0])), vc.term(env.eval(x.Args[1]))
		vc.needStrCat()
		if fname == "hassuffix" {
			return boolVal(strSuffix(a, b))
		}
		return boolVal(strPrefix(a, b))
	case "containschar":
		argn(2)
		a, c := vc.term(env.eval(x.Args[0])), vc.term(env.eval(x.Args[1]))
		return boolVal(fmt.Sprintf("(exists ((i Int)) (and (<= 0 i) (< i (str-len %s)) (= (str-at %s i) %s)))", a, a, c))
	case "visited":
		// visited(k): key k has already been produced by the map range loop this invariant belongs to
		argn(1)
		if env.fr == nil || env.block == nil {
			env.fail("visited() is only meaningful in a loop invariant")
		}
		var nx *ssa.Next
		for blk := env.block; blk != nil && nx == nil; blk = blk.Idom() {
			for _, in := range blk.Instrs {
				if n, ok := in.(*ssa.Next); ok && !n.IsString {
					nx = n
					break
				}
			}
			break
		}
		if nx == nil {
			env.fail("visited(): no map range in this loop header")
		}
		it := env.fr.val(nx.Iter)
		if len(it.Bind) != 1 {
			env.fail("visited(): iterator without visited set")
		}
		mt := it.Typ.Underlying().(*types.Map)
		gv := "GV|" + vc.sortOf(mt.Key())
		return boolVal(sel(sel(env.curHeap().Get(gv), it.Bind[0].T), vc.term(env.eval(x.Args[0]))))
	case "lower":
		argn(1)
		vc.needStrLower()
		return &Val{T: "(str-lower " + vc.term(env.eval(x.Args[0])) + ")", Typ: types.Typ[types.String]}
	case "isfunc":
		// isfunc(x, "F$1"): x is the function value / closure of the named function of this package
		argn(2)
		sl, ok := x.Args[1].(*StrLit)
		if !ok {
			env.fail("isfunc(x, \"name\")")
		}
		vc.S.DeclareRaw("fn:closure-tag", "(declare-fun closure-tag (Int) Int)")
		return boolVal(eq("(closure-tag "+vc.term(env.eval(x.Args[0]))+")", fmt.Sprint(funcTag(env.pkgPath()+"."+sl.V))))
	case "ifaceval":
		// ifaceval(x) or ifaceval(x, *T): the dynamic value of an interface, optionally typed as T
		if len(x.Args) == 2 {
			t, err := vc.P.ResolveType(env.pkgPath(), x.Args[1].String())
			if err != nil {
				env.fail("%v", err)
			}
			raw := "(if-val " + vc.term(env.eval(x.Args[0])) + ")"
			switch srt := vc.sortOf(t); srt {
			case "Int":
				return &Val{T: raw, Typ: t}
			case "Bool":
				return &Val{T: eq(raw, "1"), Typ: t}
			default:
				unbox := "unbox_" + mangle(srt)
				box := "box_" + mangle(srt)
				vc.S.DeclareRaw("fn:"+box, fmt.Sprintf("(declare-fun %s (%s) Int)", box, srt))
				vc.S.DeclareRaw("fn:"+unbox, fmt.Sprintf("(declare-fun %s (Int) %s)", unbox, srt))
				return &Val{T: "(" + unbox + " " + raw + ")", Typ: t}
			}
		}
		argn(1)
		return intVal("(if-val " + vc.term(env.eval(x.Args[0])) + ")")
	case "arrstr":
		// arrstr(a, n): the string made of the first n bytes of array a
		argn(2)
		vc.needStrOfBytes()
		return &Val{T: fmt.Sprintf("(str-of-bytes %s 0 %s)", vc.term(env.eval(x.Args[0])), vc.term(env.eval(x.Args[1]))), Typ: types.Typ[types.String]}
	case "zeros":
		// zeros(): the all-zero byte array
		argn(0)
		return &Val{T: "((as const (Array Int Int)) 0)", Typ: types.NewArray(types.Typ[types.Byte], 0)}
	case "arr":
		// arr(b): the backing array of a byte slice / array (indices are absolute)
		argn(1)
		a, _ := env.arrOf(env.eval(x.Args[0]))
		return &Val{T: a, Typ: types.NewArray(types.Typ[types.Byte], 0)}
	case "base":
		argn(1)
		return intVal(vc.slice(env.eval(x.Args[0])).Base)
	case "offset":
		argn(1)
		return intVal(vc.slice(env.eval(x.Args[0])).Off)
	case "ref":
		argn(1)
		return intVal(env.refOf(env.eval(x.Args[0])))
	case "seqeq":
		// seqeq(a, b): same length and contents
		argn(2)
		a, b := env.eval(x.Args[0]), env.eval(x.Args[1])
		la, lb := env.lenOf(a), env.lenOf(b)
		iv := q(fmt.Sprintf("i!s%d", vc.S.nfresh))
		vc.S.nfresh++
		ai := env.index(a, &Val{T: iv, Typ: types.Typ[types.Int]})
		bi := env.index(b, &Val{T: iv, Typ: types.Typ[types.Int]})
		return boolVal(and(eq(la, lb), fmt.Sprintf("(forall ((%s Int)) (=> (and (<= 0 %s) (< %s %s)) (= %s %s)))", iv, iv, iv, la, ai.T, bi.T)))
	case "str":
		// str(b): the string with b's bytes
		argn(1)
		arr, off := env.arrOf(env.eval(x.Args[0]))
		vc.needStrOfBytes()
		l := env.lenOf(env.eval(x.Args[0]))
		return &Val{T: fmt.Sprintf("(str-of-bytes %s %s %s)", arr, off, l), Typ: types.Typ[types.String]}
	}
	gname := fname
	if i := strings.LastIndex(gname, "."); i >= 0 {
		gname = gname[i+1:] // package-qualified ghost function
	}
	if g, ok := vc.P.CS.Ghosts[gname]; ok {
		var args []*Val
		for _, a := range x.Args {
			args = append(args, env.eval(a))
		}
		return env.ghostApply(g, args)
	}
	env.fail("unknown spec function %s", fname)
	return nil
}

// hint makes a ground array term known to the solver so that frame axioms
// (triggered on select of the new heap version) get instantiated for it.
func (vc *VC) hint(t Term, sortS string) {
	if vc.hinted[t] {
		return
	}
	vc.hinted[t] = true
	fn := "hint_" + mangle(sortS)
	vc.S.DeclareRaw("fn:"+fn, "(declare-fun "+fn+" ("+sortS+") Bool)")
	vc.S.Assert("(" + fn + " " + t + ")")
}

// mentionsQvar reports whether term t refers to a quantifier variable currently in scope.
func (env *SpecEnv) mentionsQvar(t Term) bool {
	for v := range env.qvars {
		if strings.Contains(string(t), v) {
			return true
		}
	}
	return false
}

// wfRef: references read from the heap are nil or allocated (well-formed heap).
func (env *SpecEnv) wfRef(r *Val, h *Heap) {
	vc := env.VC()
	if r.Typ == nil || isOpaqueSpecial(r.Typ) || len(env.qvars) > 0 {
		return
	}
	switch r.Typ.Underlying().(type) {
	case *types.Pointer, *types.Map:
		vc.S.Assert(implies(env.pathCond(), or(eq(r.T, "0"), sel(h.Get("$alloc"), r.T))))
	case *types.Slice:
		b := vc.slice(r).Base
		vc.S.Assert(implies(env.pathCond(), or(eq(b, "0"), sel(h.Get("$alloc"), b))))
	}
}

func (vc *VC) ghostVarType(gv *GhostField) types.Type {
	t, err := vc.P.ResolveType(gv.Pkg, gv.GoType)
	if err != nil {
		panic(specErr(fmt.Sprintf("ghost var %s: %v", gv.Name, err)))
	}
	return t
}

func (vc *VC) ghostVarHeap(gv *GhostField) string {
	return vc.regHeap("G|ghost."+gv.Name, vc.sortOf(vc.ghostVarType(gv)))
}

// ghostFieldPtr locates a declared ghost field of the object v points to.
func (env *SpecEnv) ghostFieldPtr(v *Val, name string) *Ptr {
	vc := env.VC()
	t := v.Typ
	if pt, ok := t.Underlying().(*types.Pointer); ok {
		t = pt.Elem()
	}
	tq := typeQual(t)
	if i := strings.LastIndex(tq, "/"); i >= 0 {
		tq = tq[i+1:]
	}
	gf, ok := vc.P.CS.GhostFields[tq+"."+name]
	if !ok {
		return nil
	}
	gt, err := vc.P.ResolveType(gf.Pkg, gf.GoType)
	if err != nil {
		env.fail("ghost field %s: %v", name, err)
	}
	hn := vc.regHeap("GF|"+tq+"|"+name, "(Array Int "+vc.sortOf(gt)+")")
	return &Ptr{Heap: hn, Ref: vc.term(v), SlotT: gt, Elem: gt}
}

// addrOf evaluates x.f to the address of field f (an interior pointer).
func (env *SpecEnv) addrOf(e Expr) *Val {
	vc := env.VC()
	s, ok := e.(*Sel)
	if !ok {
		return env.eval(e)
	}
	base := env.eval(s.X)
	t := base.Typ
	bt := t
	if pt, ok := t.Underlying().(*types.Pointer); ok {
		bt = pt.Elem()
	}
	var pkg *types.Package
	if n, ok := types.Unalias(bt).(*types.Named); ok {
		pkg = n.Obj().Pkg()
	}
	_, path, _ := types.LookupFieldOrMethod(t, true, pkg, s.Name)
	if len(path) == 0 {
		env.fail("no field %s in %s", s.Name, t)
	}
	cur := base
	for _, idx := range path {
		p := vc.fieldPtr(cur, idx)
		if p == nil {
			env.fail("cannot take the address of %s", e)
		}
		cur = &Val{P: p, Typ: types.NewPointer(p.Elem)}
	}
	return cur
}

func (env *SpecEnv) lenOf(v *Val) Term {
	vc := env.VC()
	switch t := v.Typ.Underlying().(type) {
	case *types.Slice:
		return vc.slice(v).Len
	case *types.Basic:
		return "(str-len " + vc.term(v) + ")"
	case *types.Array:
		return intLit64(t.Len())
	}
	env.fail("len of %s", v.Typ)
	return ""
}

func (env *SpecEnv) refOf(v *Val) Term {
	vc := env.VC()
	if v.Typ != nil {
		if _, ok := v.Typ.Underlying().(*types.Slice); ok {
			return vc.slice(v).Base
		}
	}
	return vc.term(v)
}

// ghostApply applies an uninterpreted (or defined) ghost function.
func (env *SpecEnv) ghostApply(g *GhostFunc, args []*Val) *Val {
	vc := env.VC()
	if len(args) != len(g.Params) {
		env.fail("ghost %s expects %d arguments", g.Name, len(g.Params))
	}
	rt, err := vc.P.ResolveType(g.Pkg, g.Result)
	if err != nil {
		env.fail("ghost %s: %v", g.Name, err)
	}
	var ptypes []types.Type
	var sorts []string
	for _, pt := range g.PTypes {
		t, err := vc.P.ResolveType(g.Pkg, pt)
		if err != nil {
			env.fail("ghost %s: %v", g.Name, err)
		}
		ptypes = append(ptypes, t)
		sorts = append(sorts, vc.sortOf(t))
	}
	sym := "g." + g.Name
	if !vc.ghostDecl[g.Name] {
		vc.ghostDecl[g.Name] = true
		if g.Def != nil {
			sub := &SpecEnv{vc: vc, heap: vc.root, old: vc.root, bound: map[string]*Val{}, names: map[string]*Val{}, pkg: g.Pkg}
			var ps []string
			for i, p := range g.Params {
				pn := q("p." + p)
				sub.bound[p] = &Val{T: pn, Typ: ptypes[i]}
				ps = append(ps, fmt.Sprintf("(%s %s)", pn, sorts[i]))
			}
			body := vc.term(sub.eval(g.Def))
			vc.S.DeclareRaw("ghost:"+g.Name, fmt.Sprintf("(define-fun %s (%s) %s %s)", q(sym), strings.Join(ps, " "), vc.sortOf(rt), body))
		} else {
			vc.S.DeclareRaw("ghost:"+g.Name, fmt.Sprintf("(declare-fun %s (%s) %s)", q(sym), strings.Join(sorts, " "), vc.sortOf(rt)))
		}
		vc.emitAxiomsFor(g.Name)
	}
	if len(args) == 0 {
		return &Val{T: q(sym), Typ: rt}
	}
	var ts []string
	for _, a := range args {
		ts = append(ts, vc.term(a))
	}
	return &Val{T: "(" + q(sym) + " " + strings.Join(ts, " ") + ")", Typ: rt}
}

// emitAxiomsFor asserts every axiom once all ghost functions it mentions are declared.
func (vc *VC) emitAxiomsFor(name string) {
	for _, ax := range vc.P.CS.Axioms {
		key := "axiom:" + ax.Pkg + ":" + ax.Name
		if vc.ghostDecl[key] {
			continue
		}
		if !mentions(ax.Cl.E, name) {
			continue
		}
		vc.ghostDecl[key] = true
		env := &SpecEnv{vc: vc, heap: vc.root, old: vc.root, bound: map[string]*Val{}, names: map[string]*Val{}, pkg: ax.Pkg}
		t := env.evalBool(ax.Cl.E)
		vc.S.Assert(t)
		vc.Trusted["axiom:"+ax.Name+": "+ax.Cl.Src] = true
	}
}

func mentions(e Expr, name string) bool {
	found := false
	var walk func(e Expr)
	walk = func(e Expr) {
		if e == nil || found {
			return
		}
		switch x := e.(type) {
		case *Ident:
			if x.Name == name {
				found = true
			}
		case *Unary:
			walk(x.X)
		case *Binary:
			walk(x.X)
			walk(x.Y)
		case *CallE:
			walk(x.Fun)
			for _, a := range x.Args {
				walk(a)
			}
		case *Sel:
			walk(x.X)
		case *IndexE:
			walk(x.X)
			walk(x.I)
		case *SliceE:
			walk(x.X)
			walk(x.Lo)
			walk(x.Hi)
		case *Quant:
			walk(x.Lo)
			walk(x.Hi)
			walk(x.Body)
		case *IteE:
			walk(x.C)
			walk(x.A)
			walk(x.B)
		}
	}
	walk(e)
	return found
}

// ---------- locals ----------

// lookupLocal resolves a source-level name at a program point.
func (fr *Frame) lookupLocal(name string, b *ssa.BasicBlock, idx int, h *Heap, old bool) *Val {
	vc := fr.vc
	if old {
		if v, ok := fr.params[name]; ok {
			return v
		}
	}
	matches := func(in ssa.Instruction) *Val {
		switch x := in.(type) {
		case *ssa.DebugRef:
			if x.IsAddr {
				return nil
			}
			if obj := x.Object(); obj != nil && obj.Name() == name {
				if ov, isVar := obj.(*types.Var); isVar && !ov.IsField() {
					return fr.val(x.X)
				}
			}
		case *ssa.Phi:
			if x.Comment == name {
				return fr.val(x)
			}
		}
		return nil
	}
	for blk := b; blk != nil; blk = blk.Idom() {
		end := len(blk.Instrs)
		if blk == b && idx < end {
			end = idx
		}
		for i := end - 1; i >= 0; i-- {
			if v := matches(blk.Instrs[i]); v != nil {
				return v
			}
		}
	}
	// address-taken locals and named results
	for _, l := range fr.fn.Locals {
		if l.Comment == name {
			p := vc.ptrOf(fr.val(l))
			if p != nil {
				return vc.loadPtr(p, h)
			}
		}
	}
	if v, ok := fr.params[name]; ok {
		return v
	}
	for _, fv := range fr.fn.FreeVars {
		if fv.Name() == name {
			v := fr.val(fv)
			// captured variables are pointers to the variable
			if _, isPtr := fv.Type().(*types.Pointer); isPtr {
				if p := vc.ptrOf(v); p != nil {
					return vc.loadPtr(p, h)
				}
			}
			return v
		}
	}
	return nil
}

// ---------- callee environments ----------

// calleeEnv binds a contract's parameter names to the call's argument values.
func (vc *VC) calleeEnv(fr *Frame, c *Contract, callee *ssa.Function, cc *ssa.CallCommon, args []*Val) *SpecEnv {
	env := &SpecEnv{vc: vc, bound: map[string]*Val{}, names: map[string]*Val{}, pkg: c.Pkg}
	if fr != nil {
		env.reachT = fr.here()
	}
	names := vc.paramNames(c, callee, cc)
	for i, n := range names {
		if i < len(args) && n != "" && n != "_" {
			a := *args[i]
			if callee != nil && i < len(callee.Params) {
				a.Typ = callee.Params[i].Type()
			}
			env.names[n] = &a
		}
	}
	return env
}

func (vc *VC) paramNames(c *Contract, callee *ssa.Function, cc *ssa.CallCommon) []string {
	if len(c.ParamsOvr) > 0 {
		return c.ParamsOvr
	}
	var names []string
	if callee != nil && len(callee.Params) > 0 {
		for _, p := range callee.Params {
			names = append(names, p.Name())
		}
		return names
	}
	var sig *types.Signature
	if callee != nil {
		sig = callee.Signature
	} else if cc != nil {
		sig = cc.Signature()
		names = append(names, "recv")
	}
	if sig != nil {
		if callee != nil && sig.Recv() != nil {
			names = append(names, sig.Recv().Name())
		}
		for i := 0; i < sig.Params().Len(); i++ {
			names = append(names, sig.Params().At(i).Name())
		}
	}
	return names
}

func (env *SpecEnv) bindResults(callee *ssa.Function, cc *ssa.CallCommon, res *Val) {
	var sig *types.Signature
	if callee != nil {
		sig = callee.Signature
	} else if cc != nil {
		sig = cc.Signature()
	}
	if sig == nil {
		return
	}
	n := sig.Results().Len()
	get := func(i int) *Val {
		if res.Tup != nil {
			return res.Tup[i]
		}
		return res
	}
	for i := 0; i < n; i++ {
		r := sig.Results().At(i)
		v := get(i)
		if r.Name() != "" && r.Name() != "_" {
			env.names[r.Name()] = v
		}
		env.names[fmt.Sprintf("result%d", i)] = v
		if i == 0 {
			env.names["result"] = v
		}
		if i == n-1 && isErrorType(r.Type()) {
			env.names["err"] = v
		}
	}
}

func isErrorType(t types.Type) bool {
	n, ok := t.(*types.Named)
	return ok && n.Obj().Pkg() == nil && n.Obj().Name() == "error"
}

// calleeTypeEnv: environment with fresh symbolic parameters, used only to
// compute heap names statically.
func (vc *VC) calleeTypeEnv(c *Contract, callee *ssa.Function, cc *ssa.CallCommon) *SpecEnv {
	env := &SpecEnv{vc: vc, bound: map[string]*Val{}, names: map[string]*Val{}, pkg: c.Pkg, heap: vc.root, old: vc.root}
	names := vc.paramNames(c, callee, cc)
	if callee != nil {
		for i, p := range callee.Params {
			if i < len(names) {
				env.names[names[i]] = &Val{T: "0", Typ: p.Type()}
			}
		}
	} else if cc != nil {
		env.names["recv"] = &Val{T: "(mk-iface 0 0)", Typ: cc.Value.Type()}
		sig := cc.Signature()
		for i := 0; i < sig.Params().Len(); i++ {
			if i+1 < len(names) {
				env.names[names[i+1]] = &Val{T: "0", Typ: sig.Params().At(i).Type()}
			}
		}
	}
	return env
}

type modLoc struct {
	Heap  string
	Ref   Term
	Idx   Term
	Whole bool
	Sub   *Ptr // pointer into the middle of a slot (struct field path and/or array element): only that part changes
}

// modLocs interprets a modifies expression as a set of heap locations.
func (env *SpecEnv) modLocs(e Expr) []modLoc {
	vc := env.VC()
	switch x := e.(type) {
	case *Sel:
		base := env.eval(x.X)
		// field of an object
		t := base.Typ
		var pkg *types.Package
		bt := t
		if pt, ok := t.Underlying().(*types.Pointer); ok {
			bt = pt.Elem()
		}
		if n, ok := types.Unalias(bt).(*types.Named); ok {
			pkg = n.Obj().Pkg()
		}
		_, path, _ := types.LookupFieldOrMethod(t, true, pkg, x.Name)
		if len(path) == 0 {
			if gp := env.ghostFieldPtr(base, x.Name); gp != nil {
				return []modLoc{{Heap: gp.Heap, Ref: gp.Ref}}
			}
			env.fail("modifies: no field %s", x.Name)
		}
		p := vc.fieldPtr(base, path[0])
		if p == nil {
			env.fail("modifies: cannot locate %s", e)
		}
		return []modLoc{{Heap: p.Heap, Ref: p.Ref}}
	case *CallE:
		fn, _ := x.Fun.(*Ident)
		if fn == nil || len(x.Args) != 1 {
			env.fail("modifies: unsupported %s", e)
		}
		v := env.eval(x.Args[0])
		switch fn.Name {
		case "contents":
			switch t := v.Typ.Underlying().(type) {
			case *types.Slice:
				return []modLoc{{Heap: vc.memName(t.Elem()), Ref: vc.slice(v).Base}}
			case *types.Pointer:
				if arr, ok := t.Elem().Underlying().(*types.Array); ok {
					p := vc.ptrOf(v)
					if strings.HasPrefix(p.Heap, "M|") {
						return []modLoc{{Heap: vc.memName(arr.Elem()), Ref: p.Ref}}
					}
					return []modLoc{{Heap: p.Heap, Ref: p.Ref}}
				}
				p := vc.ptrOf(v)
				if p.Obj {
					var out []modLoc
					stT, st := structOf(p.Elem)
					for i := 0; i < st.NumFields(); i++ {
						out = append(out, modLoc{Heap: vc.fieldName(stT, i), Ref: p.Ref})
					}
					return out
				}
				if (len(p.Path) > 0 || p.Idx != "") && !strings.HasPrefix(p.Heap, "G|") {
					return []modLoc{{Heap: p.Heap, Ref: p.Ref, Sub: p}}
				}
				return []modLoc{{Heap: p.Heap, Ref: p.Ref}}
			}
		case "entries":
			if mt, ok := v.Typ.Underlying().(*types.Map); ok {
				d, vn := vc.mapNames(mt)
				m := vc.term(v)
				return []modLoc{{Heap: d, Ref: m}, {Heap: vn, Ref: m}, {Heap: "ML", Ref: m}}
			}
		case "allof":
			// allof(x.f): the field f of every object
			locs := env.modLocs(x.Args[0])
			for i := range locs {
				locs[i].Whole = true
			}
			return locs
		}
	case *Unary:
		if x.Op == "*" {
			v := env.eval(x.X)
			p := vc.ptrOf(v)
			if p != nil && !p.Obj {
				return []modLoc{{Heap: p.Heap, Ref: p.Ref}}
			}
		}
	}
	if id, ok := e.(*Ident); ok {
		if gv, ok := vc.P.CS.GhostVars[id.Name]; ok {
			return []modLoc{{Heap: vc.ghostVarHeap(gv), Whole: true}}
		}
	}
	env.fail("modifies: unsupported location %s", e)
	return nil
}

func (env *SpecEnv) modNames(e Expr) (names []string) {
	defer func() {
		if r := recover(); r != nil {
			if _, ok := r.(specErr); ok {
				names = []string{"*"}
				return
			}
			panic(r)
		}
	}()
	for _, l := range env.modLocs(e) {
		names = append(names, l.Heap)
	}
	return
}

// patternOK: a term can serve as a quantifier trigger only if it contains no logical connective or
// relation (the solvers reject those inside patterns).
func patternOK(t Term) bool {
	for _, bad := range []string{"(ite ", "(and ", "(or ", "(not ", "(=> ", "(= ", "(<= ", "(< ", "(>= ", "(> ", "(forall", "(exists", "(let ", "(distinct "} {
		if strings.Contains(t, bad) {
			return false
		}
	}
	return true
}

// letHasSite: does any call instruction of the function match the pattern of some let that binds name?
func (fr *Frame) letHasSite(name string) bool {
	if fr.c == nil {
		return true
	}
	for _, ac := range fr.c.AtCalls {
		if ac.Kind != "let" || ac.Let != name {
			continue
		}
		pat := ac.Callee
		if i := strings.LastIndex(pat, "#"); i > 0 {
			pat = pat[:i]
		}
		if strings.HasPrefix(pat, "builtin.") {
			return true
		}
		var scan func(fn *ssa.Function, depth int) bool
		scan = func(fn *ssa.Function, depth int) bool {
			for _, b := range fn.Blocks {
				for _, in := range b.Instrs {
					ci, ok := in.(ssa.CallInstruction)
					if !ok {
						continue
					}
					cc := ci.Common()
					callee := cc.StaticCallee()
					if calleeMatches(calleeName(cc, callee), pat) {
						return true
					}
					// calls inside helpers that are inlined are program points of this function too
					if callee != nil && callee.Blocks != nil && depth < 3 && fr.vc.P.ContractFor(callee) == nil {
						if scan(callee, depth+1) {
							return true
						}
					}
				}
			}
			for _, an := range fn.AnonFuncs {
				if depth < 3 && scan(an, depth+1) {
					return true
				}
			}
			return false
		}
		if scan(fr.fn, 0) {
			return true
		}
	}
	return false
}
