package vc

import (
	"bytes"
	"context"
	"fmt"
	"os"
	"os/exec"
	"path/filepath"
	"strings"
	"sync"
	"time"
)

type SolverSpec struct {
	Name string
	Args []string
}

var Solvers = []SolverSpec{
	{"z3-new", []string{"z3-new", "-smt2"}},
	{"z3", []string{"z3", "-smt2"}},
	{"cvc5", []string{"cvc5", "--lang=smt2", "--produce-models", "--incremental"}},
}

type solveOut struct {
	solver  string
	status  string // unsat, sat, unknown, timeout, error
	out     string
	seconds float64
}

func runSolver(ctx context.Context, sp SolverSpec, path string, timeout time.Duration) solveOut {
	args := append([]string{}, sp.Args[1:]...)
	switch sp.Name {
	case "z3", "z3-new":
		args = append(args, fmt.Sprintf("-T:%d", int(timeout.Seconds())))
	case "cvc5":
		args = append(args, fmt.Sprintf("--tlimit=%d", int(timeout.Milliseconds())))
	}
	args = append(args, path)
	cctx, cancel := context.WithTimeout(ctx, timeout+2*time.Second)
	defer cancel()
	cmd := exec.CommandContext(cctx, sp.Args[0], args...)
	var buf bytes.Buffer
	cmd.Stdout = &buf
	cmd.Stderr = &buf
	t0 := time.Now()
	err := cmd.Run()
	dt := time.Since(t0).Seconds()
	out := buf.String()
	first := strings.TrimSpace(strings.SplitN(out, "\n", 2)[0])
	st := "error"
	switch {
	case first == "unsat":
		st = "unsat"
	case first == "sat":
		st = "sat"
	case first == "unknown":
		st = "unknown"
	case strings.Contains(first, "timeout") || cctx.Err() != nil:
		st = "timeout"
	case err != nil && ctx.Err() != nil:
		st = "cancelled"
	}
	return solveOut{sp.Name, st, out, dt}
}

// raceResult is the outcome of running the solver portfolio on one query file.
type raceResult struct {
	status  string // proved, refuted, unknown, error
	solver  string
	seconds float64
	output  string
	satOut  string
}

// race runs the portfolio on one query file; the first definite answer wins.
// When need2 is set, "proved" requires two solvers to answer unsat.
func race(path string, timeout time.Duration, need2 bool, order []int) raceResult {
	ctx, cancel := context.WithCancel(context.Background())
	defer cancel()
	ch := make(chan solveOut, len(Solvers))
	var wg sync.WaitGroup
	if order == nil {
		order = []int{0, 1, 2}
	}
	for _, i := range order {
		sp := Solvers[i]
		wg.Add(1)
		go func() {
			defer wg.Done()
			if sp.Name == "cvc5" {
				// cvc5 refuses scripts with array-indexed arrays: give it the query with the assumptions
				// about such maps removed; only an unsat answer on that weaker query is kept (see slice.go)
				if b, err := os.ReadFile(path); err == nil {
					if sl, ok := sliceArrayKeyed(string(b)); ok {
						sp2 := path + ".sliced"
						if os.WriteFile(sp2, []byte(sl), 0o644) == nil {
							r := runSolver(ctx, sp, sp2, timeout)
							r.solver = "cvc5/sliced"
							if r.status == "sat" || r.status == "unknown" {
								r.status = "unknown"
								r.out = "answer on the sliced query discarded: " + firstLines(r.out, 1)
							}
							ch <- r
							return
						}
					}
				}
			}
			ch <- runSolver(ctx, sp, path, timeout)
		}()
	}
	go func() { wg.Wait(); close(ch) }()
	t0 := time.Now()
	var unsatBy []string
	var outs []string
	allErr := true
	for r := range ch {
		outs = append(outs, fmt.Sprintf("[%s %s %.2fs] %s", r.solver, r.status, r.seconds, firstLines(r.out, 3)))
		if r.status != "error" {
			allErr = false
		}
		switch r.status {
		case "unsat":
			unsatBy = append(unsatBy, r.solver)
			if !need2 || len(unsatBy) >= 2 {
				return raceResult{status: "proved", solver: strings.Join(unsatBy, "+"), seconds: time.Since(t0).Seconds()}
			}
		case "sat":
			return raceResult{status: "refuted", solver: r.solver, seconds: time.Since(t0).Seconds(), output: r.out, satOut: r.out}
		}
	}
	res := raceResult{seconds: time.Since(t0).Seconds()}
	if len(unsatBy) > 0 {
		// need2 but only one solver finished with unsat
		res.status = "proved"
		res.solver = strings.Join(unsatBy, "+") + " (single)"
		return res
	}
	res.status = "unknown"
	res.output = strings.Join(outs, "\n")
	if allErr && len(outs) > 0 {
		// every solver rejected the query text (parse or sort error): the generator emitted a
		// malformed query, which says nothing about the code under contract
		res.status = "error"
	}
	return res
}

// SplitFirst makes Solve put the goals of a multi-goal obligation (one goal per return path or
// back edge) to the solvers one by one from the start instead of only after the joint query
// stayed undecided.
var SplitFirst = os.Getenv("VERIF_SPLIT") == "first"

// Solve decides an obligation. The goals of an obligation are first put to the portfolio as one
// disjunction; if that stays undecided and there are several goals, each goal is tried on its
// own (the obligation holds iff every goal's query is unsatisfiable, so this changes nothing
// about what is proved, only how much case splitting one solver run has to do).
func Solve(o *Obligation, s *Script, dir string, timeout time.Duration, need2 bool, order []int) {
	if o.Static {
		return
	}
	os.MkdirAll(dir, 0o755)
	name := sanitize(o.ID)
	path := filepath.Join(dir, name+".smt2")
	if err := os.WriteFile(path, []byte(o.SMT(s, true)), 0o644); err != nil {
		o.Status = "error"
		o.Output = err.Error()
		return
	}
	o.SMTPath = path
	set := func(r raceResult) {
		o.Status, o.Solver, o.Output = r.status, r.solver, r.output
		if r.status == "refuted" {
			o.Model = parseModel(o, r.satOut)
		}
	}
	t0 := time.Now()
	defer func() { o.Seconds = time.Since(t0).Seconds() }()
	var joint raceResult
	if !SplitFirst || len(o.Goals) < 2 {
		joint = race(path, timeout, need2, order)
		if joint.status != "unknown" || len(o.Goals) < 2 {
			set(joint)
			return
		}
	}
	// goal by goal, all goals in parallel
	res := make([]raceResult, len(o.Goals))
	var wg sync.WaitGroup
	for i := range o.Goals {
		gp := filepath.Join(dir, fmt.Sprintf("%s.goal%d.smt2", name, i))
		if err := os.WriteFile(gp, []byte(o.SMTGoal(s, true, i)), 0o644); err != nil {
			res[i] = raceResult{status: "error", output: err.Error()}
			continue
		}
		wg.Add(1)
		go func() {
			defer wg.Done()
			res[i] = race(gp, timeout, need2, order)
		}()
	}
	wg.Wait()
	solvers := map[string]bool{}
	var outs []string
	for i, r := range res {
		switch r.status {
		case "refuted":
			o.SMTPath = filepath.Join(dir, fmt.Sprintf("%s.goal%d.smt2", name, i))
			set(r)
			return
		case "proved":
			solvers[r.solver] = true
		default:
			outs = append(outs, fmt.Sprintf("goal %d: %s\n%s", i, r.status, r.output))
		}
	}
	if len(outs) == 0 {
		o.Status = "proved"
		o.Solver = strings.Join(sortedKeys(solvers), ",") + " (goal by goal)"
		return
	}
	o.Status = "unknown"
	o.Output = joint.output + "\n" + strings.Join(outs, "\n")
	allErr := true
	for _, r := range res {
		if r.status != "error" {
			allErr = false
		}
	}
	if allErr {
		o.Status = "error"
	}
}

func firstLines(s string, n int) string {
	ls := strings.Split(strings.TrimSpace(s), "\n")
	if len(ls) > n {
		ls = ls[:n]
	}
	return strings.Join(ls, " | ")
}

// parseModel reads the (get-value ...) response: a list of (term value) pairs in order.
func parseModel(o *Obligation, out string) map[string]string {
	m := map[string]string{}
	i := strings.Index(out, "\n")
	if i < 0 {
		return m
	}
	body := strings.TrimSpace(out[i+1:])
	if !strings.HasPrefix(body, "(") {
		return m
	}
	// split top-level pairs
	depth := 0
	start := -1
	var pairs []string
	for k, c := range body {
		switch c {
		case '(':
			depth++
			if depth == 2 {
				start = k
			}
		case ')':
			if depth == 2 && start >= 0 {
				pairs = append(pairs, body[start:k+1])
				start = -1
			}
			depth--
			if depth == 0 {
				goto done
			}
		}
	}
done:
	for k, p := range pairs {
		if k >= len(o.Vars) {
			break
		}
		// value = the pair minus the echoed term: take the last top-level element
		inner := strings.TrimSpace(p[1 : len(p)-1])
		val := lastSexp(inner)
		m[o.Vars[k][0]] = normalizeValue(val)
	}
	return m
}

func lastSexp(s string) string {
	s = strings.TrimSpace(s)
	if strings.HasSuffix(s, ")") {
		depth := 0
		for i := len(s) - 1; i >= 0; i-- {
			switch s[i] {
			case ')':
				depth++
			case '(':
				depth--
				if depth == 0 {
					return s[i:]
				}
			}
		}
	}
	if i := strings.LastIndexAny(s, " \t\n"); i >= 0 {
		return s[i+1:]
	}
	return s
}

func normalizeValue(v string) string {
	v = strings.TrimSpace(v)
	if strings.HasPrefix(v, "(-") && strings.HasSuffix(v, ")") {
		inner := strings.TrimSpace(v[2 : len(v)-1])
		if isIntLit(inner) {
			return "-" + inner
		}
	}
	return v
}
