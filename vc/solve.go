package vc

import (
	"bytes"
	"context"
	"fmt"
	"os"
	"os/exec"
	"path/filepath"
	"strings"
	"sync"
	"time"
)

type SolverSpec struct {
	Name string
	Args []string
}

var Solvers = []SolverSpec{
	{"z3-new", []string{"z3-new", "-smt2"}},
	{"z3", []string{"z3", "-smt2"}},
	{"cvc5", []string{"cvc5", "--lang=smt2", "--produce-models", "--incremental"}},
}

type solveOut struct {
	solver  string
	status  string // unsat, sat, unknown, timeout, error
	out     string
	seconds float64
}

func runSolver(ctx context.Context, sp SolverSpec, path string, timeout time.Duration) solveOut {
	args := append([]string{}, sp.Args[1:]...)
	switch sp.Name {
	case "z3", "z3-new":
		args = append(args, fmt.Sprintf("-T:%d", int(timeout.Seconds())))
	case "cvc5":
		args = append(args, fmt.Sprintf("--tlimit=%d", int(timeout.Milliseconds())))
	}
	args = append(args, path)
	cctx, cancel := context.WithTimeout(ctx, timeout+2*time.Second)
	defer cancel()
	cmd := exec.CommandContext(cctx, sp.Args[0], args...)
	var buf bytes.Buffer
	cmd.Stdout = &buf
	cmd.Stderr = &buf
	t0 := time.Now()
	err := cmd.Run()
	dt := time.Since(t0).Seconds()
	out := buf.String()
	first := strings.TrimSpace(strings.SplitN(out, "\n", 2)[0])
	st := "error"
	switch {
	case first == "unsat":
		st = "unsat"
	case first == "sat":
		st = "sat"
	case first == "unknown":
		st = "unknown"
	case strings.Contains(first, "timeout") || cctx.Err() != nil:
		st = "timeout"
	case err != nil && ctx.Err() != nil:
		st = "cancelled"
	}
	return solveOut{sp.Name, st, out, dt}
}

// Solve runs the portfolio on an obligation; the first definite answer wins.
// When need2 is set, "proved" requires two solvers to answer unsat.
func Solve(o *Obligation, s *Script, dir string, timeout time.Duration, need2 bool, order []int) {
	if o.Static {
		return
	}
	os.MkdirAll(dir, 0o755)
	name := sanitize(o.ID)
	path := filepath.Join(dir, name+".smt2")
	if err := os.WriteFile(path, []byte(o.SMT(s, true)), 0o644); err != nil {
		o.Status = "error"
		o.Output = err.Error()
		return
	}
	o.SMTPath = path
	ctx, cancel := context.WithCancel(context.Background())
	defer cancel()
	ch := make(chan solveOut, len(Solvers))
	var wg sync.WaitGroup
	if order == nil {
		order = []int{0, 1, 2}
	}
	for _, i := range order {
		sp := Solvers[i]
		wg.Add(1)
		go func() {
			defer wg.Done()
			ch <- runSolver(ctx, sp, path, timeout)
		}()
	}
	go func() { wg.Wait(); close(ch) }()
	t0 := time.Now()
	var unsatBy []string
	var outs []string
	for r := range ch {
		outs = append(outs, fmt.Sprintf("[%s %s %.2fs] %s", r.solver, r.status, r.seconds, firstLines(r.out, 3)))
		switch r.status {
		case "unsat":
			unsatBy = append(unsatBy, r.solver)
			if !need2 || len(unsatBy) >= 2 {
				o.Status = "proved"
				o.Solver = strings.Join(unsatBy, "+")
				o.Seconds = time.Since(t0).Seconds()
				cancel()
				return
			}
		case "sat":
			o.Status = "refuted"
			o.Solver = r.solver
			o.Seconds = time.Since(t0).Seconds()
			o.Model = parseModel(o, r.out)
			o.Output = r.out
			cancel()
			return
		}
	}
	o.Seconds = time.Since(t0).Seconds()
	if len(unsatBy) > 0 {
		// need2 but only one solver finished with unsat
		o.Status = "proved"
		o.Solver = strings.Join(unsatBy, "+") + " (single)"
		return
	}
	o.Status = "unknown"
	o.Output = strings.Join(outs, "\n")
}

func firstLines(s string, n int) string {
	ls := strings.Split(strings.TrimSpace(s), "\n")
	if len(ls) > n {
		ls = ls[:n]
	}
	return strings.Join(ls, " | ")
}

// parseModel reads the (get-value ...) response: a list of (term value) pairs in order.
func parseModel(o *Obligation, out string) map[string]string {
	m := map[string]string{}
	i := strings.Index(out, "\n")
	if i < 0 {
		return m
	}
	body := strings.TrimSpace(out[i+1:])
	if !strings.HasPrefix(body, "(") {
		return m
	}
	// split top-level pairs
	depth := 0
	start := -1
	var pairs []string
	for k, c := range body {
		switch c {
		case '(':
			depth++
			if depth == 2 {
				start = k
			}
		case ')':
			if depth == 2 && start >= 0 {
				pairs = append(pairs, body[start:k+1])
				start = -1
			}
			depth--
			if depth == 0 {
				goto done
			}
		}
	}
done:
	for k, p := range pairs {
		if k >= len(o.Vars) {
			break
		}
		// value = the pair minus the echoed term: take the last top-level element
		inner := strings.TrimSpace(p[1 : len(p)-1])
		val := lastSexp(inner)
		m[o.Vars[k][0]] = normalizeValue(val)
	}
	return m
}

func lastSexp(s string) string {
	s = strings.TrimSpace(s)
	if strings.HasSuffix(s, ")") {
		depth := 0
		for i := len(s) - 1; i >= 0; i-- {
			switch s[i] {
			case ')':
				depth++
			case '(':
				depth--
				if depth == 0 {
					return s[i:]
				}
			}
		}
	}
	if i := strings.LastIndexAny(s, " \t\n"); i >= 0 {
		return s[i+1:]
	}
	return s
}

func normalizeValue(v string) string {
	v = strings.TrimSpace(v)
	if strings.HasPrefix(v, "(-") && strings.HasSuffix(v, ")") {
		inner := strings.TrimSpace(v[2 : len(v)-1])
		if isIntLit(inner) {
			return "-" + inner
		}
	}
	return v
}
