#!/bin/sh
# builds the verifier from files on disk only (offline)
set -e
cd "$(dirname "$0")"
. ./env.sh
mkdir -p bin out evidence
go build -o bin/govc ./cmd/govc
