package main

import (
	"encoding/json"
	"flag"
	"fmt"
	"os"
	"path/filepath"
	"regexp"
	"runtime"
	"sort"
	"strconv"
	"strings"
	"sync"
	"time"

	"verif/vc"
)

func main() {
	prop := flag.String("prop", "", "property id (e.g. C33)")
	tier := flag.String("tier", "quick", "quick|thorough")
	repo := flag.String("repo", "/repo", "repository root")
	verif := flag.String("verif", "/verif", "verif root")
	update := flag.Bool("update-ledger", false, "rewrite the ledger for this property from the current run")
	verbose := flag.Bool("v", false, "verbose")
	only := flag.String("func", "", "only this function (debug)")
	cover := flag.Bool("cover", false, "vacuity diagnosis: instead of deciding the obligations, ask for every obligation whether the program point it is stated at is reachable under the assumptions in force there; prints the unreachable ones (no evidence, no ledger)")
	timeout := flag.Int("timeout", 0, "per-obligation solver timeout in seconds (default 30 quick / 60 thorough)")
	flag.Parse()
	if *prop == "" {
		fmt.Fprintln(os.Stderr, "usage: govc -prop Cxx")
		os.Exit(2)
	}
	t0 := time.Now()
	seed := 0
	if s := os.Getenv("VERIF_SEED"); s != "" {
		seed, _ = strconv.Atoi(s)
	}
	if t := os.Getenv("VERIF_TIER"); t != "" && *tier == "quick" && t == "thorough" {
		*tier = t
	}
	to := time.Duration(*timeout) * time.Second
	if *timeout == 0 {
		to = 30 * time.Second // slowest claimed obligation: ~9 s (C19 isDomainAllowed inv-step); everything else < 5 s
		if *tier == "thorough" {
			to = 60 * time.Second
		}
	}
	// A busy machine stretches solver wall time (measured: 3x at load 20 on 16 cores). The limits above are
	// meant for an idle machine, so they are scaled by the load at start-up (never below 1x, at most 3x): an
	// obligation that needs 10 s idle must not be reported as undecided because other jobs share the cores.
	if *timeout == 0 {
		if b, err := os.ReadFile("/proc/loadavg"); err == nil {
			var l1 float64
			fmt.Sscanf(string(b), "%f", &l1)
			f := l1 / (0.5 * float64(runtime.NumCPU()))
			if f > 3 {
				f = 3
			}
			if f > 1 {
				to = time.Duration(float64(to) * f)
			}
		}
	}
	vc.CurProp = *prop
	coverMode = *cover
	r := &vc.Run{Prop: *prop, Tier: *tier, Repo: *repo, Verif: *verif, Seed: seed, Timeout: to, Verbose: *verbose, OnlyFunc: *only, UpdateLedger: *update}
	code := run(r)
	if coverMode {
		os.Exit(code)
	}
	r.WallS = time.Since(t0).Seconds()
	if err := r.WriteEvidence(); err != nil {
		fmt.Fprintln(os.Stderr, "evidence:", err)
		if code == 0 {
			code = 2
		}
	}
	os.Exit(code)
}

var coverMode bool

var rePropTag = regexp.MustCompile(`\bC[0-9]{2}\b`)

// packagesFor scans contract files textually to find the packages holding contracts for a property.
func packagesFor(repo, prop string) []string {
	files, _ := filepath.Glob(filepath.Join(repo, "internal", "*", "zz_verif_*.go"))
	var pkgs []string
	for _, f := range files {
		b, err := os.ReadFile(f)
		if err != nil {
			continue
		}
		for _, line := range strings.Split(string(b), "\n") {
			if !strings.Contains(line, "@") {
				continue
			}
			hit := false
			for _, m := range rePropTag.FindAllString(line, -1) {
				if m == prop {
					hit = true
				}
			}
			if hit {
				pkgs = append(pkgs, "./"+filepath.Dir(strings.TrimPrefix(f, repo+"/")))
				break
			}
		}
	}
	sort.Strings(pkgs)
	return pkgs
}

func run(r *vc.Run) int {
	pkgs := packagesFor(r.Repo, r.Prop)
	if len(pkgs) == 0 {
		fmt.Printf("ERROR: no contract file mentions %s\n", r.Prop)
		r.Fatal = "no contracts found for property (hook commits missing?)"
		return 2
	}
	p, err := vc.Load(r.Repo, pkgs, filepath.Join(r.Verif, "contracts", "extern"))
	if err != nil {
		// a tree that does not type-check cannot be verified; report as tool error, not as a violation
		fmt.Printf("ERROR: load: %v\n", err)
		r.Fatal = "load: " + err.Error()
		return 2
	}
	p.ScanMutableFields()
	r.P = p
	var contracts []*vc.Contract
	for _, c := range p.CS.ByKey {
		if c.Trusted && !c.Lemma {
			continue
		}
		if r.OnlyFunc != "" && c.Func != r.OnlyFunc {
			continue
		}
		for _, pr := range c.AllProps() {
			if pr == r.Prop {
				contracts = append(contracts, c)
				break
			}
		}
	}
	sort.Slice(contracts, func(i, j int) bool { return contracts[i].Pkg+contracts[i].Func < contracts[j].Pkg+contracts[j].Func })
	outDir := filepath.Join(r.Verif, "out", r.Prop)
	if coverMode {
		outDir += "_cover" // the diagnosis never touches the output of a real check
	}
	os.RemoveAll(outDir)
	os.MkdirAll(outDir, 0o755)
	type job struct {
		o  *vc.Obligation
		fr *vc.FuncResult
	}
	var jobs []job
	for _, c := range contracts {
		fr := p.VerifyFunc(c)
		r.Funcs = append(r.Funcs, fr)
		for _, e := range fr.Errors {
			fmt.Printf("  contract error in %s.%s: %s\n", shortPkg(c.Pkg), c.Func, e)
		}
		for _, o := range fr.Obls {
			if !hasProp(o.Props, r.Prop) {
				continue
			}
			jobs = append(jobs, job{o, fr})
		}
	}
	// package-level census obligations
	for _, o := range p.CensusObligations(r.Prop) {
		r.Static = append(r.Static, o)
	}
	for _, o := range p.InitCallObligations(r.Prop) {
		r.Static = append(r.Static, o)
	}
	for _, o := range p.StaticObligations(r.Prop) {
		r.Static = append(r.Static, o)
	}
	if coverMode {
		return runCover(jobsToCover(func(yield func(*vc.Obligation, *vc.FuncResult)) {
			for _, j := range jobs {
				yield(j.o, j.fr)
			}
		}), outDir)
	}
	need2 := r.Tier == "thorough"
	sem := make(chan struct{}, 6)
	var wg sync.WaitGroup
	order := []int{0, 1, 2}
	if r.Seed%3 == 1 {
		order = []int{1, 2, 0}
	} else if r.Seed%3 == 2 {
		order = []int{2, 0, 1}
	}
	for _, j := range jobs {
		wg.Add(1)
		sem <- struct{}{}
		go func(j job) {
			defer wg.Done()
			defer func() { <-sem }()
			vc.Solve(j.o, j.fr.Script, outDir, r.Timeout, need2, order)
		}(j)
	}
	wg.Wait()
	for _, j := range jobs {
		r.Obls = append(r.Obls, j.o)
	}
	r.Obls = append(r.Obls, r.Static...)
	return r.Report()
}

func hasProp(ps []string, p string) bool {
	for _, x := range ps {
		if x == p {
			return true
		}
	}
	return false
}

func shortPkg(p string) string { return strings.TrimPrefix(p, vc.ModPath+"/internal/") }

var _ = json.Marshal


type coverJob struct {
	o    *vc.Obligation
	fr   *vc.FuncResult
	from []string
}

// jobsToCover turns every (path condition, claim) pair of every obligation into the question "is this
// path condition satisfiable under the assumptions in force": the claim is replaced by false.
func jobsToCover(each func(func(*vc.Obligation, *vc.FuncResult))) []*coverJob {
	var out []*coverJob
	seen := map[string]*coverJob{}
	each(func(o *vc.Obligation, fr *vc.FuncResult) {
		if o.Static {
			return
		}
		for i, g := range o.Goals {
			key := fmt.Sprintf("%p|%s", fr, g.Reach)
			if cj, ok := seen[key]; ok {
				cj.from = append(cj.from, fmt.Sprintf("%s[%d]", o.ID, i))
				if o.Mark > cj.o.Mark {
					cj.o.Mark = o.Mark // every assumption made anywhere after the point counts too
				}
				continue
			}
			co := &vc.Obligation{ID: fmt.Sprintf("%s~cover%d", o.ID, i), Kind: "cover", Func: o.Func, Pkg: o.Pkg, Mark: o.Mark, Goals: []vc.Goal{{Reach: g.Reach, Cond: "false"}}}
			cj := &coverJob{o: co, fr: fr, from: []string{fmt.Sprintf("%s[%d] %s", o.ID, i, g.Where)}}
			seen[key] = cj
			out = append(out, cj)
		}
	})
	return out
}

func runCover(jobs []*coverJob, outDir string) int {
	sem := make(chan struct{}, 8)
	var wg sync.WaitGroup
	for _, j := range jobs {
		wg.Add(1)
		sem <- struct{}{}
		go func(j *coverJob) {
			defer wg.Done()
			defer func() { <-sem }()
			vc.Solve(j.o, j.fr.Script, filepath.Join(outDir, "cover"), 10*time.Second, false, []int{0, 1, 2})
		}(j)
	}
	wg.Wait()
	n := 0
	for _, j := range jobs {
		if j.o.Status == "proved" { // the path condition is unsatisfiable: nothing stated there is ever checked
			n++
			fmt.Printf("UNREACHABLE %s (%s): %s\n", j.o.Func, j.o.Solver, j.from[0]+fmt.Sprintf(" (+%d more at the same point)", len(j.from)-1))
		}
	}
	fmt.Printf("cover: %d program points, %d unreachable under the assumptions in force\n", len(jobs), n)
	return 0
}
