package main

import (
	"fmt"
	"golang.org/x/tools/go/packages"
	"golang.org/x/tools/go/ssa"
	"golang.org/x/tools/go/ssa/ssautil"
)

func main() {
	cfg := &packages.Config{Mode: packages.LoadAllSyntax, Dir: "/repo", BuildFlags: []string{"-tags=verif"}}
	pkgs, err := packages.Load(cfg, "./internal/sleep")
	if err != nil {
		panic(err)
	}
	prog, sp := ssautil.AllPackages(pkgs, ssa.GlobalDebug|ssa.InstantiateGenerics)
	prog.Build()
	fmt.Println(len(sp), sp[0].Pkg.Path())
}
